"""XMILE side: equation printer (trees -> XMILE/SMILE text), document builder, compile+load helper.

The printer writes a tree with minimal parentheses according to the XMILE 1.0 operator table
    ^   (highest), unary -, * / MOD, + -, comparisons (= <> < <= > >=), NOT, AND, OR
or fully parenthesised; both spellings have the same XMILE meaning (the tree), which the
reference evaluates with vf.expr.RefEval.  Constructs on which XMILE tools disagree are never
printed without parentheses (chained ^, chained comparisons).
"""
import importlib.util
import logging
import os
import re
import sys
from xml.sax.saxutils import escape, quoteattr

PREC = {"or": 1, "and": 2, "not": 3, "cmp": 4, "+": 5, "-": 5, "*": 6, "/": 6, "%": 6, "neg": 7, "**": 8, "atom": 9}
CMP_TXT = {"==": "=", "!=": "<>", ">": ">", "<": "<", ">=": ">=", "<=": "<="}
CALL_TXT = {"abs": "ABS", "min": "MIN", "max": "MAX", "sqrt": "SQRT", "exp": "EXP", "ln": "LN", "log10": "LOG10", "int": "INT",
            "round": "ROUND", "sin": "SIN", "cos": "COS", "tan": "TAN", "arctan": "ARCTAN", "safediv": "SAFEDIV",
            "percent": "PERCENT", "step": "STEP"}


def xkey(name):
    """the equation key the transpiler derives from a variable name (re-implemented: lower, camelCase)"""
    n = name.lower().replace("\n", " ").replace("\\n", " ").replace('"', "").replace("-", "").replace("'", "").replace(" ", "_")
    n = re.sub(r"_+", "_", n)
    if n.startswith("."):
        n = n[1:]
    parts = n.split("_")
    s = "".join(p.capitalize() for p in parts)
    return s[:1].lower() + s[1:]


class Style:
    def __init__(self, parens="min", case="upper", space=" ", ref_case="lower", quote=False, newline=False, bare_if=False):
        self.bare_if = bare_if  # print an IF that is the last operand of a top-level + / - chain without its own parentheses
        self.parens = parens  # min | full
        self.case = case  # upper | lower | mixed  (keywords and builtin names)
        self.space = space  # "" | " " | "  "
        self.ref_case = ref_case  # lower | upper | title  (references to variables)
        self.quote = quote  # quote references
        self.newline = newline

    def kw(self, w):
        if self.case == "lower":
            return w.lower()
        if self.case == "mixed":
            return w[:1].upper() + w[1:].lower()
        return w.upper()

    def ref(self, name):
        r = name.replace(" ", "_")
        if self.ref_case == "upper":
            r = r.upper()
        elif self.ref_case == "title":
            r = "_".join(p[:1].upper() + p[1:] for p in r.split("_"))
        if self.quote:
            return '"%s"' % r
        return r


def num_txt(v):
    if isinstance(v, bool):
        return "1" if v else "0"
    if isinstance(v, int):
        return str(v)
    s = repr(float(v))
    if "e" in s or "E" in s:
        s = "%.10f" % v
    if s.endswith(".0"):
        s = s[:-2]
    return s


def pr(t, st, names, tail=False):
    """returns (text, precedence).  tail: this sub-expression ends the whole equation (nothing follows it).  In 'full' style every compound *arithmetic* sub-expression is wrapped
    in (redundant) parentheses; the boolean skeleton (cmp AND/OR cmp, NOT(cmp)) is always printed flat because
    the supported grammar has no parenthesised boolean operands."""
    k = t[0]
    sp = st.space
    full = st.parens == "full"
    if k == "num":
        v = t[1]
        if v < 0:
            return "(" + num_txt(v) + ")", PREC["atom"]
        return num_txt(v), PREC["atom"]
    if k == "ref":
        return st.ref(names.get(t[1], t[1])), PREC["atom"]
    if k in ("time", "dt", "starttime", "stoptime", "pi"):
        return st.kw(k), PREC["atom"]
    if k == "bin":
        op = t[1]
        p = PREC[op]
        l, lp = pr(t[2], st, names)
        if tail and not full and st.bare_if and op in ("+", "-") and t[3][0] == "if":
            # a + IF c THEN x ELSE y : the conditional extends to the end of the equation
            r, rp = pr(t[3], st, names, tail=True)
            r = r[1:-1] if r.startswith("(") and r.endswith(")") else r
            if lp < p:
                l = "(" + l + ")"
            return l + sp + op + sp + r, 0
        r, rp = pr(t[3], st, names)
        # left operand: same precedence is fine (left-to-right), except below ^ where everything compound is wrapped
        if lp < p or (op == "**" and lp <= p) or (lp == PREC["neg"] and p >= PREC["neg"]):
            l = "(" + l + ")"
        if rp <= p or rp == PREC["neg"]:
            r = "(" + r + ")"
        if op == "%":
            txt = l + " " + st.kw("MOD") + " " + r
        else:
            txt = l + sp + {"+": "+", "-": "-", "*": "*", "/": "/", "**": "^"}[op] + sp + r
        if full:
            return "(" + txt + ")", PREC["atom"]
        return txt, p
    if k == "neg":
        e, ep = pr(t[1], st, names)
        if ep < PREC["atom"]:
            e = "(" + e + ")"
        if full:
            return "(-" + e + ")", PREC["atom"]
        return "-" + e, PREC["neg"]
    if k == "cmp":
        l, lp = pr(t[2], st, names)
        r, rp = pr(t[3], st, names)
        if lp <= PREC["cmp"]:
            l = "(" + l + ")"
        if rp <= PREC["cmp"]:
            r = "(" + r + ")"
        return l + sp + CMP_TXT[t[1]] + sp + r, PREC["cmp"]
    if k in ("and", "or"):
        l, lp = pr(t[1], st, names)
        r, rp = pr(t[2], st, names)
        p = PREC[k]
        if lp < p or rp < p or (rp == p and t[2][0] == k and False):
            raise ValueError("boolean operand needs parentheses: outside the supported grammar")
        return l + " " + st.kw(k) + " " + r, p
    if k == "not":
        e, ep = pr(t[1], st, names)
        if t[1][0] != "cmp":
            raise ValueError("NOT is only supported in the form NOT(a <cmp> b)")
        return st.kw("NOT") + "(" + e + ")", PREC["cmp"] + 0.5
    if k == "if":
        c, _ = pr(t[1], st, names)
        a, ap = pr(t[2], st, names)
        b, bp = pr(t[3], st, names, tail=tail)
        nl = "\n" if st.newline else " "
        return "(" + st.kw("IF") + " " + c + nl + st.kw("THEN") + " " + a + nl + st.kw("ELSE") + " " + b + ")", PREC["atom"]
    if k == "call":
        fn = t[1]
        args = [pr(a, st, names)[0] for a in t[2]]
        return st.kw(CALL_TXT[fn]) + "(" + ("," + sp).join(args) + ")", PREC["atom"]
    raise ValueError("cannot print %r" % (t,))


def print_eq(tree, style=None, names=None):
    st = style or Style()
    txt, p = pr(tree, st, names or {}, tail=True)
    # an IF at top level does not need its parentheses
    if tree[0] == "if" and st.parens != "full" and txt.startswith("(") and txt.endswith(")"):
        txt = txt[1:-1]
    return txt


# ---------------------------------------------------------------------------
# documents

HEADER = """<?xml version="1.0" encoding="utf-8"?>
<xmile version="1.0" xmlns="http://docs.oasis-open.org/xmile/ns/XMILE/v1.0" xmlns:isee="http://iseesystems.com/XMILE">
	<header>
		<smile version="1.0" namespace="std, isee"/>
		<name>%(name)s</name>
		<vendor>isee systems, inc.</vendor>
		<product version="2.1" lang="en">Stella Architect</product>
	</header>
	<sim_specs method="Euler" time_units="months">
		<start>%(start)s</start>
		<stop>%(stop)s</stop>
		%(dt)s
	</sim_specs>
	<model>
		<variables>
"""
FOOTER = """		</variables>
	</model>
</xmile>
"""


def dt_element(dt_spec):
    """dt_spec: {"dt": "0.1"} or {"reciprocal": "10"}"""
    if "reciprocal" in dt_spec:
        return '<dt reciprocal="true">%s</dt>' % dt_spec["reciprocal"]
    return "<dt>%s</dt>" % dt_spec["dt"]


def document(variables, start, stop, dt_spec, name="generated"):
    """variables: list of dicts
         {"kind": "aux"|"flow"|"stock", "name": display name, "eqn": text, "non_negative": bool,
          "inflows": [...], "outflows": [...], "gf": {"xpts": [...]|None, "xmin":, "xmax":, "ypts": [...]}}"""
    out = [HEADER % {"name": name, "start": start, "stop": stop, "dt": dt_element(dt_spec)}]
    for v in variables:
        kind = v["kind"]
        out.append("\t\t\t<%s name=%s>\n" % (kind, quoteattr(v["name"])))
        out.append("\t\t\t\t<eqn>%s</eqn>\n" % escape(v["eqn"]))
        for f in v.get("inflows", []):
            out.append("\t\t\t\t<inflow>%s</inflow>\n" % escape(f))
        for f in v.get("outflows", []):
            out.append("\t\t\t\t<outflow>%s</outflow>\n" % escape(f))
        if v.get("non_negative"):
            out.append("\t\t\t\t<non_negative/>\n")
        gf = v.get("gf")
        if gf:
            out.append("\t\t\t\t<gf>\n")
            if gf.get("xpts"):
                if gf.get("xscale_too"):
                    # editors write the scale of the x axis next to explicit x points; the points define the function
                    out.append('\t\t\t\t\t<xscale min="%s" max="%s"/>\n' % (num_txt(gf["xpts"][0]), num_txt(gf["xpts"][-1])))
                out.append("\t\t\t\t\t<xpts>%s</xpts>\n" % ",".join(num_txt(x) for x in gf["xpts"]))
            else:
                out.append('\t\t\t\t\t<xscale min="%s" max="%s"/>\n' % (num_txt(gf["xmin"]), num_txt(gf["xmax"])))
            out.append('\t\t\t\t\t<yscale min="%s" max="%s"/>\n' % (num_txt(min(gf["ypts"])), num_txt(max(gf["ypts"]))))
            out.append("\t\t\t\t\t<ypts>%s</ypts>\n" % ",".join(num_txt(y) for y in gf["ypts"]))
            out.append("\t\t\t\t</gf>\n")
        out.append("\t\t\t</%s>\n" % kind)
    out.append(FOOTER)
    return "".join(out)


def _var_xml(v):
    out = []
    kind = v["kind"]
    out.append("\t\t\t<%s name=%s>\n" % (kind, quoteattr(v["name"])))
    out.append("\t\t\t\t<eqn>%s</eqn>\n" % escape(v["eqn"]))
    out.append("\t\t\t</%s>\n" % kind)
    return "".join(out)


def document_modules(main_variables, modules, start, stop, dt_spec, name="generated"):
    """main model with <module name=.../> declarations plus one <model name=...> per module (aux variables only)"""
    out = [HEADER % {"name": name, "start": start, "stop": stop, "dt": dt_element(dt_spec)}]
    for v in main_variables:
        out.append(_var_xml(v))
    for mname in modules:
        out.append("\t\t\t<module name=%s/>\n" % quoteattr(mname))
    out.append("\t\t</variables>\n\t</model>\n")
    for mname, variables in modules.items():
        out.append("\t<model name=%s>\n\t\t<variables>\n" % quoteattr(mname))
        for v in variables:
            out.append(_var_xml(v))
        out.append("\t\t</variables>\n\t</model>\n")
    out.append("</xmile>\n")
    return "".join(out)


class LogCapture(logging.Handler):
    def __init__(self):
        super().__init__(level=logging.WARNING)
        self.records = []

    def emit(self, record):
        self.records.append(record.getMessage())


_counter = [0]


def compile_and_load(xml_text, workdir="."):
    """compile the document with the repository's transpiler and import the generated module.
    returns (model_instance, warnings, python_source).  Raises whatever the compiler/import raises."""
    from BPTK_Py.sdcompiler.compile import compile_xmile

    _counter[0] += 1
    base = "xm_%d_%d" % (os.getpid(), _counter[0])
    src = os.path.join(workdir, base + ".stmx")
    dest = os.path.join(workdir, base + ".py")
    with open(src, "w", encoding="utf-8") as f:
        f.write(xml_text)
    cap = LogCapture()
    root = logging.getLogger()
    root.addHandler(cap)
    try:
        compile_xmile(src, dest, "py")
    finally:
        root.removeHandler(cap)
    code = open(dest, encoding="utf-8").read()
    try:
        spec = importlib.util.spec_from_file_location(base, dest)
        mod = importlib.util.module_from_spec(spec)
        import warnings
        with warnings.catch_warnings():
            warnings.simplefilter("ignore")
            spec.loader.exec_module(mod)
        model = mod.simulation_model()
    finally:
        for p in (src, dest):
            try:
                os.remove(p)
            except OSError:
                pass
    return model, cap.records, code
