"""C16 - server instances are isolated from one another.

Generator: k in {2,3} instances, each with its own generated request sequence (begin-session with
settings, run-step with settings, run-steps, session-results, flat results, keep-alive, end-session,
stop-instance), a generated interleaving at request granularity, optional clock advances (harness
clock as in C17) so that instances can time out; two factory styles (fresh model per instance /
one module-level base model registered through the cloning path).
Oracle: history differential - the responses an instance gives in the interleaved run equal the
responses of a solo replay of only its own requests (and the same clock advances) on a fresh server.
"""
import json

from hypothesis import strategies as st

from vf.props import c17
from vf.runner import Violation

ID = "C16"
LEVEL = "exploration"
TECHNIQUE = "generated multi-instance request histories and interleavings (Hypothesis); differential against a solo replay of each instance's own requests"
RULE = ("cases = (k instances with timeouts, created one by one or by one /start-instances request, per-instance request lists, merge "
        "order, clock advances, factory style incl. register_model and a base-constants dict shared by the factory's bptks, a quarter one lifetime after the other; half of the shards run every history in a freshly forked interpreter state); every response "
        "(status and body) of every instance in the interleaved run must equal the corresponding response of the solo replay. "
        "non-trivial = two sessions are live at once with different settings and the merge order alternates A,B,A at least once; "
        "distinct by case")
ASSUMPTIONS = [
    "compared at request granularity (one request at a time); thread-level interleavings inside a request are C18's subject",
    "timestamps, thread counts and instance ids are not part of the compared bodies",
    "the clock is substituted as in C17 so that time-outs are deterministic",
    "responses of an instance are compared up to its first request made after it had been idle for its full timeout (revival of an expired instance is left open by the statement)",
    "bodies are compared as parsed JSON (key order inside a step result depends on thread completion order)",
]

SM, SC = "smC16", "base"
_shared = {}
_BASE_CONSTANTS = {"k": 2.0}


def _mk_model():
    from BPTK_Py import Model
    m = Model(starttime=1.0, stoptime=8.0, dt=0.5, name="c16")
    s = m.stock("s")
    f = m.flow("f")
    k = m.constant("k")
    c = m.converter("c")
    k.equation = 2.0
    m.points["p"] = [[0.0, 0.0], [10.0, 10.0]]
    from BPTK_Py import sd_functions as sd
    c.equation = sd.lookup(sd.time(), "p")
    f.equation = k * 1.0 + c
    s.equation = f
    s.initial_value = 0.0
    return m


def factory_for(style, made):
    def factory():
        from BPTK_Py import bptk
        b = bptk()
        if style == "register-model":
            # the documented one-liner: scenario manager and a scenario "base" are created by bptk
            b.register_model(_mk_model(), scenario_manager=SM)
            b.register_scenarios({"other": {"constants": {"k": 5.0}}}, SM)
            made.append(b)
            return b
        if style == "base-constants":
            # the factory hands the same base-constants dictionary to every bptk it builds (bptk only reads it)
            b.register_scenario_manager({SM: {"model": _mk_model(), "base_constants": _BASE_CONSTANTS}})
            b.register_scenarios({SC: {}, "other": {"constants": {"k": 5.0}}}, SM)
            made.append(b)
            return b
        if style == "fresh":
            m = _mk_model()
        else:
            if "m" not in _shared:
                _shared["m"] = _mk_model()
            m = _shared["m"]
        b.register_scenario_manager({SM: {"model": m}})
        b.register_scenarios({SC: {}, "other": {"constants": {"k": 5.0}}}, SM)
        made.append(b)
        return b
    return factory


def run_isolated(events, timeouts, style, batch):
    """run_history in a forked child of a process that has never run a history itself: nothing an earlier history
    left behind in the interpreter (class attributes, default arguments, module globals) can reach this run"""
    import os
    import signal
    r, w = os.pipe()
    pid = os.fork()
    if pid == 0:
        code = 0
        try:
            os.close(r)
            try:
                evs = [tuple(e) if e[0] == "advance" else ("req", e[1], e[2]) for e in events]
                res = {"out": run_history(evs, timeouts, style, batch=batch)}
            except BaseException as e:
                res = {"error": "%s: %s" % (type(e).__name__, e)}
            data = json.dumps(res).encode()
            with os.fdopen(w, "wb") as fh:
                fh.write(data)
        except BaseException:
            code = 3
        finally:
            os._exit(code)
    os.close(w)
    try:
        with os.fdopen(r, "rb") as fh:
            data = fh.read()
    finally:
        try:
            os.kill(pid, signal.SIGKILL)
        except OSError:
            pass
        os.waitpid(pid, 0)
    if not data:
        raise RuntimeError("isolated run produced no result")
    res = json.loads(data.decode())
    if "error" in res:
        raise RuntimeError(res["error"])
    return {int(k): v for k, v in res["out"].items()}


def run_history(events, timeouts, style, adapter=False, batch=0):
    """events: list of ("req", inst_index, request) / ("advance", micros).  returns per-instance response lists"""
    import BPTK_Py.externalstateadapter.externalStateAdapter as esa
    import BPTK_Py.server.bptkServer as srv
    from BPTK_Py import BptkServer

    clock = c17.Clock()
    shim = c17._Shim(clock)
    old_srv, old_esa = srv.datetime, esa.datetime
    srv.datetime = shim
    esa.datetime = shim
    made = []
    out = {}
    _shared["ran"] = True
    try:
        app = BptkServer(__name__, bptk_factory=factory_for(style, made))
        app.logger.disabled = True
        client = app.test_client()
        ids = {}
        if batch:
            # all instances come from one /start-instances request
            resp = client.post("/start-instances", json={"instances": batch, "timeout": timeouts[0]})
            for i, iid in enumerate(json.loads(resp.data)["instance_uuids"]):
                ids[i] = iid
                out[i] = []
        for ev in events:
            if ev[0] == "advance":
                clock.advance(ev[1])
                continue
            _, idx, req = ev
            if idx not in ids:
                resp = client.post("/start-instance", json={"timeout": timeouts[idx]})
                ids[idx] = json.loads(resp.data)["instance_uuid"]
                out[idx] = []
            iid = ids[idx]
            kind = req[0]
            if kind == "begin":
                body = {"scenario_managers": [SM], "scenarios": req[1], "equations": req[2]}
                if req[3] is not None:
                    body["settings"] = {SM: {req[1][0]: req[3]}}
                resp = client.post("/%s/begin-session" % iid, json=body)
            elif kind == "step":
                if req[1] is None:
                    resp = client.post("/%s/run-step" % iid)
                else:
                    resp = client.post("/%s/run-step" % iid, json={"settings": {SM: {req[2]: req[1]}}})
            elif kind == "steps":
                resp = client.post("/%s/run-steps" % iid, json={"numberSteps": req[1], "settings": {} if req[2] is None else {SM: {req[3]: req[2]}}})
            elif kind == "results":
                resp = client.get("/%s/session-results" % iid)
            elif kind == "flat":
                resp = client.get("/%s/flat-session-results" % iid)
            elif kind == "keep-alive":
                resp = client.post("/%s/keep-alive" % iid)
            elif kind == "end":
                resp = client.post("/%s/end-session" % iid)
            elif kind == "stop":
                resp = client.post("/%s/stop-instance" % iid)
            else:
                raise ValueError(kind)
            txt = resp.get_data(as_text=True)
            try:
                body = json.loads(txt)  # key order inside a step result depends on which equation thread finished first
            except Exception:
                body = txt
            out[idx].append([resp.status_code, body])
    finally:
        srv.datetime, esa.datetime = old_srv, old_esa
        for b in made:
            try:
                b.destroy()
            except Exception:
                pass
    return out


def check_case(case):
    vs = []
    info = {"nontrivial": False}
    events = [tuple(e) if e[0] == "advance" else ("req", e[1], e[2]) for e in case["events"]]
    timeouts = case["timeouts"]
    batch = len(timeouts) if case.get("start") == "batch" else 0
    isolated = bool(case.get("isolated"))

    def run(evs):
        if isolated:
            return run_isolated([list(e) for e in evs], timeouts, case["style"], batch)
        return run_history(evs, timeouts, case["style"], batch=batch)
    try:
        inter = run(events)
    except Exception as e:
        vs.append(Violation("crash:interleaved:" + type(e).__name__, "interleaved run raised %r" % (e,)))
        return info, vs
    insts = sorted(inter)
    # an instance that is accessed after it has been idle for its full timeout may or may not be revived (the statement
    # leaves this open): from that request on its responses are not compared
    limit = {}
    now = 0
    last = {i: 0 for i in range(batch)}
    count = {}
    for e in events:
        if e[0] == "advance":
            now += e[1]
            continue
        idx = e[1]
        count[idx] = count.get(idx, 0) + 1
        if idx in last and idx not in limit and now - last[idx] >= c17.timeout_micros(timeouts[idx]):
            limit[idx] = count[idx] - 1
        last[idx] = now
    for idx in insts:
        solo_events = [e for e in events if e[0] == "advance" or e[1] == idx]
        if not any(e[0] == "req" for e in solo_events):
            continue
        solo = run(solo_events)
        a, b = inter[idx], solo.get(idx, [])
        if idx in limit:
            a, b = a[:limit[idx]], b[:limit[idx]]
        if a != b:
            pos = next((i for i, (x, y) in enumerate(zip(a, b)) if x != y), min(len(a), len(b)))
            reqs = [e[2] for e in events if e[0] == "req" and e[1] == idx]
            vs.append(Violation("differs-from-solo:%s:%s%s" % (reqs[pos][0] if pos < len(reqs) else "?", case["style"], ":batch" if batch else ""),
                                "instance %d request #%d %r: interleaved response %r, solo response %r; events %r"
                                % (idx, pos, reqs[pos] if pos < len(reqs) else None, a[pos] if pos < len(a) else None, b[pos] if pos < len(b) else None,
                                   case["events"])))
            break
    # non-triviality: alternation A,B,A with settings
    order = [e[1] for e in events if e[0] == "req"]
    alt = any(order[i] == order[i + 2] != order[i + 1] for i in range(len(order) - 2))
    with_settings = sum(1 for e in events if e[0] == "req" and e[2][0] in ("begin", "step", "steps") and any(isinstance(x, dict) and x for x in e[2][1:]))
    info["nontrivial"] = alt and with_settings >= 1 and len(insts) >= 2
    return info, vs


def case_strategy(isolated=False):
    @st.composite
    def build(draw):
        k = draw(st.integers(2, 3))
        style = draw(st.sampled_from(["fresh", "shared-base", "register-model", "register-model", "base-constants", "base-constants"]))
        start = draw(st.sampled_from(["single", "single", "batch"]))
        full = lambda **kw: dict({"weeks": 0, "days": 0, "hours": 0, "minutes": 0, "seconds": 0, "milliseconds": 0, "microseconds": 0}, **kw)
        timeouts = [draw(st.sampled_from([{"hours": 1}, {"minutes": 5}, {"seconds": 30}, {"milliseconds": 500},
                                          full(hours=1), full(minutes=5), full(seconds=30), full(milliseconds=500), full(days=1)])) for _ in range(k)]

        def settings():
            w = draw(st.sampled_from(["none", "c", "p", "cp", "c"]))
            if w == "none":
                return None
            out = {}
            if "c" in w:
                out["constants"] = {"k": draw(st.sampled_from([0.5, 1.0, 3.0, 7.0]))}
            if "p" in w:
                out["points"] = {"p": [[0.0, draw(st.sampled_from([0.0, 1.0, 5.0]))], [10.0, draw(st.sampled_from([2.0, 10.0, 20.0]))]]}
            return out
        if start == "batch":
            timeouts = [timeouts[0]] * k
        seqs = []
        for i in range(k):
            sc = draw(st.sampled_from([SC, "other"]))
            eqs = draw(st.sampled_from([["s"], ["s", "f"], ["f", "c", "s"], ["k", "s"]]))
            seq = [["begin", [sc], eqs, settings()]]
            for _ in range(draw(st.integers(1, 7))):
                kind = draw(st.sampled_from(["step", "step", "steps", "results", "flat", "keep-alive", "end", "stop", "begin"]))
                if kind == "step":
                    seq.append(["step", settings(), sc])
                elif kind == "steps":
                    seq.append(["steps", draw(st.integers(1, 3)), settings(), sc])
                elif kind == "begin":
                    seq.append(["begin", [sc], eqs, settings()])
                else:
                    seq.append([kind])
            seqs.append(seq)
        # merge order: a random interleaving, or one lifetime after the other (an instance is stopped before the next one
        # is started - only with instances that are created on their first request)
        sequential = start == "single" and draw(st.integers(0, 3)) == 0
        if sequential:
            for i in range(k - 1):
                seqs[i] = [r for r in seqs[i] if r[0] != "stop"] + [["stop"]]
        pos = [0] * k
        events = []
        remaining = sum(len(s) for s in seqs)
        while remaining:
            cand = [i for i in range(k) if pos[i] < len(seqs[i])]
            i = cand[0] if sequential else draw(st.sampled_from(cand))
            events.append(["req", i, seqs[i][pos[i]]])
            pos[i] += 1
            remaining -= 1
            if draw(st.integers(0, 5)) == 0:
                events.append(["advance", draw(st.sampled_from([1000, 10 ** 6, 40 * 10 ** 6, 400 * 10 ** 6, 4000 * 10 ** 6]))])
        return {"style": style, "start": start, "isolated": isolated, "sequential": sequential, "timeouts": timeouts, "events": events}
    return build()


def _body(ctx):
    def body(case):
        info, vs = check_case(case)
        kinds = sorted(set("req:" + e[2][0] for e in case["events"] if e[0] == "req"))
        ctx.case(case, nontrivial=info["nontrivial"], labels=["style:" + case["style"], "k:%d" % len(case["timeouts"]), "start:" + case.get("start", "single"),
                                                              "isolated" if case.get("isolated") else "in-process"] + (["one-lifetime-after-the-other"] if case.get("sequential") else []) + kinds +
                 (["has-advance"] if any(e[0] == "advance" for e in case["events"]) else []), key=case)
        ctx.report(vs)
    return body


def plan(tier):
    n = 40 if tier == "quick" else 500
    # every run (interleaved and each solo replay) in its own freshly forked interpreter state; these shards come first
    # so that they also start from a pristine process when all shards run in one process
    specs = [{"n": n, "isolated": True} for _ in range(12)]
    specs += [{"n": n} for _ in range(4)]
    return specs


def run_shard(spec, ctx):
    if spec.get("isolated") and _shared.get("ran"):
        from vf.runner import HarnessError
        raise HarnessError("isolated shard scheduled in a process that already ran histories")
    ctx.hyp(case_strategy(bool(spec.get("isolated"))), _body(ctx), spec["n"])
