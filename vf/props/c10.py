"""C10 - arrayed equations compute what the same numpy operation computes.

Generator: bounded-exhaustive enumeration of (form, operator, operand kinds, shapes, naming,
matching / mismatching) with hash-derived nice values, plus Hypothesis-drawn values and shapes.
Oracle: numpy on the *evaluated* operand entries (so clamping of flows etc. is not part of the
comparison): + - * / element-wise, numpy.dot, sum/prod/mean/median/std, k-th largest, len.
Outcome classes: equal / rejected (exception) / accepted-but-different or accepted-although-mismatched.
"""
import hashlib
import itertools
import json

import numpy as np
from hypothesis import strategies as st

from vf.runner import Violation

ID = "C10"
LEVEL = "exploration"
TECHNIQUE = "bounded-exhaustive enumeration of array shapes and operator forms + random values (Hypothesis), differential vs numpy"
RULE = ("cases = (form in {element-wise, scalar-on-the-right, scalar-on-the-left, dot, aggregate, aggregate inside an element-wise operation, compound arrayed operand A o (B o A) / (A o B) o A / s o (A o B)}, operator, operand element kinds, "
        "shapes m x n for m,n <= 4 incl. vectors, indexed or named [same / permuted / different names], matching or mismatching); "
        "every accepted result is compared entry by entry with numpy on the evaluated operand entries, mismatching operands must "
        "raise. non-trivial = non-square or degenerate (1 x n, n x 1, 1 x 1) shape, or named indices, or scalar on the left, AND the "
        "equation was accepted (or correctly rejected for mismatching operands); distinct by case")
ASSUMPTIONS = [
    "operand entries are read back through the DSL (so a flow's clamp at zero belongs to the operand, not to the operation)",
    "arr_rank(k): k-th largest for 1 <= k <= size, smallest otherwise (operator docstring); arr_size of a matrix = number of rows",
    "named operands with the same name set in different order pair by name",
    "any exception at assignment or evaluation = rejected",
]
EXHAUSTIVE_SCOPE = "all combinations enumerated by c10.combos(tier) (shapes <= 3x3 quick, <= 4x4 thorough)"

POOL = [1.0, 2.0, -3.0, 0.5, 4.0, -1.5, 2.5, 7.0, -0.25, 3.0, 10.0, 0.75]
KINDS = ["constant", "converter", "flow", "stock"]
OPS = ["+", "-", "*", "/"]
AGGS = ["sum", "prod", "mean", "median", "stddev", "size", "rank"]


def _vals(shape, salt):
    h = int(hashlib.sha1(repr(salt).encode()).hexdigest()[:8], 16)
    if len(shape) == 1:
        return [POOL[(h + 5 * i) % len(POOL)] for i in range(shape[0])]
    return [[POOL[(h + 5 * i + 3 * j) % len(POOL)] for j in range(shape[1])] for i in range(shape[0])]


def _names(n, variant):
    base = ["n%d" % i for i in range(n)]
    if variant == "permuted":
        return base[1:] + base[:1]
    if variant == "different":
        return ["z%d" % i for i in range(n)]
    return base


def _setup(model, name, spec):
    """create the operand element from its spec; returns the element"""
    kind = spec["kind"]
    el = getattr(model, kind)(name)
    vals = spec["values"]
    shape = spec["shape"]
    named = spec.get("named")
    if spec.get("grown") and len(shape) == 2 and shape[1] >= 2 and not named:
        # the matrix first exists with one column less, is used once (its size gets queried), and is then set up with its final shape
        el.setup_matrix([shape[0], shape[1] - 1], [list(r[:-1]) for r in vals])
        probe = model.converter(name + "_probe")
        probe.equation = el.arr_rank(1) + el.arr_sum()
        probe(0.0)
        tmp = model.converter(name + "_probe2")
        tmp.equation = el * 2.0
    if len(shape) == 1:
        if named:
            nm = _names(shape[0], named)
            el.setup_named_vector({nm[i]: vals[i] for i in range(shape[0])})
        else:
            el.setup_vector(shape[0], list(vals))
    else:
        if named:
            rn = _names(shape[0], named)
            cn = ["c%d" % j for j in range(shape[1])]
            el.setup_named_matrix({rn[i]: {cn[j]: vals[i][j] for j in range(shape[1])} for i in range(shape[0])})
        else:
            el.setup_matrix([shape[0], shape[1]], [list(r) for r in vals])
    return el


def _read(el, t):
    """read an arrayed element back as (keys, nested list)"""
    if not el.arrayed:
        return None, el(t)
    keys = list(el._elements.equations)
    rows = []
    sub_keys = None
    for k in keys:
        sub = el[k]
        if sub.arrayed:
            sk, vals = _read(sub, t)
            sub_keys = sk
            rows.append(vals)
        else:
            rows.append(sub(t))
    return (keys, sub_keys), rows


def _np_elementwise(op, a, b):
    return {"+": a + b, "-": a - b, "*": a * b, "/": a / b}[op]


def check_case(case):
    from BPTK_Py import Model

    t = 0.0
    form = case["form"]
    vs = []
    info = {"outcome": None}
    model = Model(starttime=0.0, stoptime=2.0, dt=1.0, name="c10")
    try:
        A = _setup(model, "A", case["A"])
        (akeys, _), avals = _read(A, t)
        a = np.array(avals, dtype=float)
        B = None
        if "B" in case and "shape" in case["B"]:
            B = _setup(model, "B", case["B"])
            (bkeys, _), bvals = _read(B, t)
            b = np.array(bvals, dtype=float)
        elif "B" in case:
            sv = case["B"]["scalar"]
            if case["B"]["as"] == "element":
                B = model.converter("S")
                B.equation = sv
            else:
                B = sv
            b = float(sv)
    except Exception as e:
        # operand construction is not the operation under test
        info["outcome"] = "operand-rejected:" + type(e).__name__
        return info, vs
    mismatch = bool(case.get("mismatch"))
    # ---- expected (numpy) --------------------------------------------------
    want = None
    if not mismatch:
        if form == "elem":
            bb = b
            if case["A"].get("named") and case["B"].get("named") == "permuted":
                # pair by name: reorder B's rows to A's name order
                an = _names(case["A"]["shape"][0], case["A"]["named"])
                bn = _names(case["B"]["shape"][0], case["B"]["named"])
                bb = np.array([bvals[bn.index(n)] for n in an], dtype=float)
            want = _np_elementwise(case["op"], a, bb)
        elif form == "nested":
            # A op (B op2 A)  /  (A op2 B) op A  /  S op (A op2 B): a compound arrayed expression as operand
            if case["side"] == "right":
                want = _np_elementwise(case["op"], a, _np_elementwise(case["op2"], b, a))
            elif case["side"] == "left":
                want = _np_elementwise(case["op"], _np_elementwise(case["op2"], a, b), a)
            else:
                want = _np_elementwise(case["op"], 2.5, _np_elementwise(case["op2"], a, b))
        elif form == "scalar-right":
            want = _np_elementwise(case["op"], a, b)
        elif form == "scalar-left":
            want = _np_elementwise(case["op"], b, a)
        elif form in ("agg-right", "agg-left"):
            flat = a.flatten()
            agg = case["agg"]
            sval = {"sum": np.sum(a), "prod": np.prod(a), "mean": np.mean(a), "median": np.median(a), "stddev": np.std(a),
                    "size": float(len(a)), "rank": (sorted(flat.tolist(), reverse=True)[case.get("k", 1) - 1]
                                                     if 1 <= case.get("k", 1) <= len(flat) else sorted(flat.tolist())[0])}[agg]
            want = _np_elementwise(case["op"], a, sval) if form == "agg-right" else _np_elementwise(case["op"], sval, a)
        elif form == "dot":
            want = np.dot(a, b) if case.get("order", "AB") == "AB" else np.dot(b, a)
        elif form == "agg":
            flat = a.flatten()
            k = case.get("k")
            agg = case["agg"]
            if agg == "sum":
                want = np.sum(a)
            elif agg == "prod":
                want = np.prod(a)
            elif agg == "mean":
                want = np.mean(a)
            elif agg == "median":
                want = np.median(a)
            elif agg == "stddev":
                want = np.std(a)
            elif agg == "size":
                want = float(len(a))
            elif agg == "rank":
                s = sorted(flat.tolist(), reverse=True)
                want = s[k - 1] if 1 <= k <= len(s) else s[-1]
    # ---- the DSL ------------------------------------------------------------
    try:
        op = case.get("op")
        if form == "elem" or form == "scalar-right":
            eq = {"+": lambda: A + B, "-": lambda: A - B, "*": lambda: A * B, "/": lambda: A / B}[op]()
        elif form == "nested":
            f = {"+": lambda x, y: x + y, "-": lambda x, y: x - y, "*": lambda x, y: x * y, "/": lambda x, y: x / y}
            if case["side"] == "right":
                eq = f[op](A, f[case["op2"]](B, A))
            elif case["side"] == "left":
                eq = f[op](f[case["op2"]](A, B), A)
            else:
                S = model.converter("S")
                S.equation = 2.5
                eq = f[op](S, f[case["op2"]](A, B))
        elif form == "scalar-left":
            eq = {"+": lambda: B + A, "-": lambda: B - A, "*": lambda: B * A, "/": lambda: B / A}[op]()
        elif form in ("agg-right", "agg-left"):
            agg = case["agg"]
            G = A.arr_rank(case.get("k", 1)) if agg == "rank" else getattr(A, "arr_" + agg)()
            if form == "agg-right":
                eq = {"+": lambda: A + G, "-": lambda: A - G, "*": lambda: A * G, "/": lambda: A / G}[op]()
            else:
                eq = {"+": lambda: G + A, "-": lambda: G - A, "*": lambda: G * A, "/": lambda: G / A}[op]()
        elif form == "dot":
            if case.get("order", "AB") == "AB":
                eq = A.dot(B)
            else:
                eq = B.dot(A)
        elif form == "agg":
            agg = case["agg"]
            eq = A.arr_rank(case["k"]) if agg == "rank" else getattr(A, "arr_" + agg)()
        R = getattr(model, case.get("result_kind", "converter"))("R")
        R.equation = eq
        keys, got = _read(R, t)
        got_arr = np.array(got, dtype=float)
    except Exception as e:
        info["outcome"] = "rejected:" + type(e).__name__
        return info, vs
    info["outcome"] = "accepted"
    sig_form = form + (":" + case["op"] if op else "") + (":" + case["side"] + ":" + case["op2"] if form == "nested" else "") + \
        (":" + case["agg"] if form in ("agg", "agg-right", "agg-left") else "") + \
        (":" + _dotkind(case) if form == "dot" else "")
    if mismatch:
        vs.append(Violation("mismatch-accepted:" + sig_form + ":" + case["mismatch"],
                            "operands %s and %s (%s) were accepted and yielded %r" % (_sh(case["A"]), _sh(case.get("B", {})), case["mismatch"], got)))
        return info, vs
    want_arr = np.array(want, dtype=float)
    if got_arr.shape != want_arr.shape:
        vs.append(Violation("shape:" + sig_form, "result shape %r, numpy shape %r; A=%s B=%s got=%r want=%r"
                            % (got_arr.shape, want_arr.shape, _sh(case["A"]), _sh(case.get("B", {})), got, want_arr.tolist())))
        return info, vs
    if not np.allclose(got_arr, want_arr, rtol=1e-9, atol=1e-12, equal_nan=True):  # 0/0 is nan on both sides
        vs.append(Violation("value:" + sig_form, "A=%r B=%r got %r numpy %r" % (avals, case.get("B"), got_arr.tolist(), want_arr.tolist())))
    return info, vs


def _dotkind(case):
    def k(s):
        if "shape" not in s:
            return "s"
        return "v" if len(s["shape"]) == 1 else "M"
    a, b = k(case["A"]), k(case["B"])
    return (a + b) if case.get("order", "AB") == "AB" else (b + a)


def _sh(spec):
    if not spec:
        return "-"
    if "shape" not in spec:
        return "scalar(%s)" % spec.get("as")
    return "%s%s%s" % (spec["kind"], "x".join(str(x) for x in spec["shape"]), ("/named:" + spec["named"]) if spec.get("named") else "")


def _nontrivial(case, info):
    sh = case["A"]["shape"]
    odd = (len(sh) == 2 and (sh[0] != sh[1] or 1 in sh)) or (len(sh) == 1 and sh[0] == 1)
    named = bool(case["A"].get("named"))
    left = case["form"] == "scalar-left"
    ok = info["outcome"] == "accepted" or (case.get("mismatch") and str(info["outcome"]).startswith("rejected"))
    return bool((odd or named or left) and ok)


def _body(ctx):
    def body(case):
        info, vs = check_case(case)
        labels = ["form:" + case["form"], "outcome:" + str(info["outcome"]).split(":")[0]] + (["operand-grown-after-first-use"] if case["A"].get("grown") else [])
        if case.get("mismatch"):
            labels.append("mismatching-operands")
        if str(info["outcome"]).startswith("rejected") and not case.get("mismatch"):
            labels.append("rejected-matching:" + case["form"] + ":" + str(case.get("op") or case.get("agg") or _dotkind(case)) + (":" + case["agg"] if case.get("agg") and case.get("op") else ""))
        ctx.case({"form": case["form"], "op": (case.get("op") or "") + (":" + case["agg"] if case.get("agg") else "") or _dotkind(case), "A": _sh(case["A"]), "B": _sh(case.get("B", {})),
                  "mismatch": case.get("mismatch"), "outcome": info["outcome"]},
                 nontrivial=_nontrivial(case, info), labels=labels, key=case)
        ctx.report(vs)
    return body


def shapes(maxn):
    out = [[n] for n in range(1, maxn + 2)]
    out += [[m, n] for m in range(1, maxn + 1) for n in range(1, maxn + 1)]
    return out


def combos(tier):
    maxn = 3 if tier == "quick" else 4
    shs = shapes(maxn)
    out = []
    kinds_pairs = [("constant", "constant"), ("converter", "constant"), ("flow", "converter"), ("stock", "flow"), ("converter", "stock")]
    idx = 0
    for sh in shs:
        for ka, kb in kinds_pairs:
            for named in (None, "same"):
                A = {"kind": ka, "shape": sh, "named": named}
                # element-wise, matching
                for op in OPS:
                    out.append({"form": "elem", "op": op, "A": dict(A), "B": {"kind": kb, "shape": sh, "named": named}})
                    if named:
                        out.append({"form": "elem", "op": op, "A": dict(A), "B": {"kind": kb, "shape": sh, "named": "permuted"},
                                    "tag": "permuted"})
                        out.append({"form": "elem", "op": op, "A": dict(A), "B": {"kind": kb, "shape": sh, "named": "different"},
                                    "mismatch": "names"})
                        out.append({"form": "elem", "op": op, "A": dict(A), "B": {"kind": kb, "shape": sh, "named": None},
                                    "mismatch": "named-vs-indexed"})
                    for ssh in shs:
                        if ssh != sh and len(ssh) == len(sh) and (ka, kb) == kinds_pairs[0]:
                            out.append({"form": "elem", "op": op, "A": dict(A), "B": {"kind": kb, "shape": ssh, "named": named},
                                        "mismatch": "shape"})
                    if named is None and (ka, kb) in kinds_pairs[:3]:
                        for op2 in OPS:
                            for side in ("right", "left", "scalar"):
                                out.append({"form": "nested", "op": op, "op2": op2, "side": side, "A": dict(A), "B": {"kind": kb, "shape": sh, "named": named}})
                    for sas in ("number", "element"):
                        out.append({"form": "scalar-right", "op": op, "A": dict(A), "B": {"scalar": 2.0, "as": sas}})
                        out.append({"form": "scalar-left", "op": op, "A": dict(A), "B": {"scalar": 3.0, "as": sas}})
                # aggregates used as the scalar operand inside an element-wise arrayed equation: v - v.arr_median()
                if (ka, kb) in kinds_pairs[:3]:
                    for agg in AGGS:
                        for op in OPS:
                            for frm in ("agg-right", "agg-left"):
                                c = {"form": frm, "op": op, "agg": agg, "A": dict(A)}
                                if agg == "rank":
                                    c["k"] = 2
                                out.append(c)
                # aggregates
                if (ka, kb) in kinds_pairs[:4]:
                    size = sh[0] * (sh[1] if len(sh) == 2 else 1)
                    for agg in AGGS:
                        if agg == "rank":
                            for k in range(-1, size + 2):
                                out.append({"form": "agg", "agg": agg, "k": k, "A": dict(A)})
                        else:
                            out.append({"form": "agg", "agg": agg, "A": dict(A)})
        # dot (indexed only; named dot is documented as unsupported -> must reject)
        for ssh in shs:
            for ka, kb in kinds_pairs[:2]:
                match = _dot_ok(sh, ssh)
                c = {"form": "dot", "A": {"kind": ka, "shape": sh, "named": None}, "B": {"kind": kb, "shape": ssh, "named": None}}
                if not match:
                    c["mismatch"] = "dot-shape"
                out.append(c)
        for sas in ("number", "element"):
            out.append({"form": "dot", "A": {"kind": "constant", "shape": sh, "named": None}, "B": {"scalar": 2.0, "as": sas}})
            out.append({"form": "dot", "A": {"kind": "constant", "shape": sh, "named": None}, "B": {"scalar": 2.0, "as": sas}, "order": "BA"})
    grown = []
    for c in out:
        if len(c["A"]["shape"]) == 2 and c["A"]["shape"][1] >= 2 and not c["A"].get("named") and c["A"]["kind"] in ("constant", "converter") \
                and (c["form"] in ("agg", "dot") or (c["form"] == "elem" and c.get("op") in ("+", "*"))):
            g = json.loads(json.dumps(c))
            g["A"]["grown"] = True
            grown.append(g)
    out += grown
    for i, c in enumerate(out):
        c["A"]["values"] = _vals(c["A"]["shape"], ("A", i))
        if "B" in c and "shape" in c["B"]:
            v = _vals(c["B"]["shape"], ("B", i))
            if c.get("op") == "/":
                v = _nonzero(v)
            c["B"]["values"] = v
        if c["form"] == "scalar-left" and c.get("op") == "/":
            c["A"]["values"] = _nonzero(c["A"]["values"])
    return out


def _nonzero(v):
    if isinstance(v, list):
        return [_nonzero(x) for x in v]
    return v if abs(v) > 0.2 else 1.25


def _dot_ok(s1, s2):
    if len(s1) == 1 and len(s2) == 1:
        return s1[0] == s2[0]
    if len(s1) == 1:
        return s1[0] == s2[0]
    if len(s2) == 1:
        return s1[1] == s2[0]
    return s1[1] == s2[0]


def random_strategy():
    num = st.sampled_from(POOL + [0.0, -7.5, 100.0, 0.125])

    @st.composite
    def build(draw):
        form = draw(st.sampled_from(["elem", "scalar-right", "scalar-left", "dot", "agg", "agg-right", "agg-left", "nested"]))
        m, n = draw(st.integers(1, 4)), draw(st.integers(1, 4))
        vec = draw(st.booleans())
        sh = [draw(st.integers(1, 5))] if vec else [m, n]

        def vals(shape, nz=False):
            f = num.filter(lambda x: abs(x) > 0.1) if nz else num
            if len(shape) == 1:
                return draw(st.lists(f, min_size=shape[0], max_size=shape[0]))
            return [draw(st.lists(f, min_size=shape[1], max_size=shape[1])) for _ in range(shape[0])]
        named = draw(st.sampled_from([None, None, "same"])) if form != "dot" else None
        A = {"kind": draw(st.sampled_from(KINDS)), "shape": sh, "named": named}
        case = {"form": form, "A": A}
        if form == "nested":
            case["op"], case["op2"], case["side"] = draw(st.sampled_from(OPS)), draw(st.sampled_from(OPS)), draw(st.sampled_from(["right", "left", "scalar"]))
            A["named"] = None
            case["B"] = {"kind": draw(st.sampled_from(KINDS)), "shape": sh, "named": None, "values": vals(sh, True)}
            A["values"] = vals(sh, True)
        elif form == "elem":
            case["op"] = draw(st.sampled_from(OPS))
            case["B"] = {"kind": draw(st.sampled_from(KINDS)), "shape": sh, "named": named, "values": vals(sh, case["op"] == "/")}
            A["values"] = vals(sh)
        elif form in ("scalar-right", "scalar-left"):
            case["op"] = draw(st.sampled_from(OPS))
            case["B"] = {"scalar": draw(num.filter(lambda x: abs(x) > 0.1)), "as": draw(st.sampled_from(["number", "element"]))}
            A["values"] = vals(sh, form == "scalar-left" and case["op"] == "/")
        elif form == "dot":
            other_vec = draw(st.booleans())
            inner = sh[0] if vec else sh[1]
            sh2 = [inner] if other_vec else [inner, draw(st.integers(1, 4))]
            case["B"] = {"kind": draw(st.sampled_from(KINDS[:2])), "shape": sh2, "named": None, "values": vals(sh2)}
            A["values"] = vals(sh)
        else:
            case["agg"] = draw(st.sampled_from(AGGS))
            size = sh[0] * (sh[1] if len(sh) == 2 else 1)
            if case["agg"] == "rank":
                case["k"] = draw(st.integers(-1, size + 1))
            if form in ("agg-right", "agg-left"):
                case["op"] = draw(st.sampled_from(OPS))
            A["values"] = vals(sh, form == "agg-left" and case.get("op") == "/")
        case["result_kind"] = draw(st.sampled_from(["converter", "converter", "biflow"]))
        return case
    return build()


def plan(tier):
    specs = [{"kind": "enum", "part": i, "of": 12} for i in range(12)]
    specs += [{"kind": "random", "n": 200 if tier == "quick" else 4000} for _ in range(4)]
    return specs


def run_shard(spec, ctx):
    body = _body(ctx)
    if spec["kind"] == "enum":
        cs = combos(ctx.tier)
        mine = [c for i, c in enumerate(cs) if i % spec["of"] == spec["part"]]
        ctx.extra["combos"] = len(mine)
        ctx.enum(mine, body)
        ctx.exhaustive = True
    else:
        ctx.hyp(random_strategy(), body, spec["n"])
