"""C03 - the XMILE transpiler preserves the meaning of every supported equation.

Generator: XMILE documents with 3-8 aux variables whose equations are expression trees printed
by vf.xmile (minimal or redundant parentheses, keyword/name case, whitespace, name shapes),
referencing earlier variables (a DAG).  Oracle: vf.expr.RefEval on the tree (XMILE operator
table) at t = start and start+dt.  Out-of-grammar mutants must be loud (exception at
compile/import/evaluation or a WARNING record), never a silent value.
"""
from hypothesis import strategies as st

from vf import expr as E
from vf import xmile as X
from vf.runner import Violation

ID = "C03"
LEVEL = "translation_validation"
TECHNIQUE = "generated XMILE documents (Hypothesis grammar-based) compiled by the transpiler; per-program differential vs reference evaluator + loudness of out-of-grammar mutants"
RULE = ("programs = generated XMILE documents (3-8 aux variables, equations over + - * / MOD ^ unary minus, parentheses, "
        "IF/THEN/ELSE, AND/OR/NOT(cmp), comparisons, ABS MIN MAX SQRT EXP LN LOG10 INT ROUND SIN COS TAN ARCTAN SAFEDIV PERCENT STEP "
        "TIME DT STARTTIME STOPTIME PI with compound arguments; spellings: minimal vs redundant parentheses, keyword case, "
        "whitespace/newlines, name shapes incl. names starting with keywords/builtins); each variable of each compiled program is "
        "evaluated at two times and compared with the reference (disagreements_checked = comparisons made). non-trivial = some "
        "equation has >= 2 operators of different precedence or a call with a compound argument; distinct by document text")
ASSUMPTIONS = [
    "XMILE semantics are taken from the XMILE 1.0 operator table: ^, unary -, * / MOD, + -, comparisons, NOT, AND, OR; left-to-right within a level",
    "constructs on which tools disagree are not generated unparenthesised: chained ^, chained comparisons, MOD of negatives, ROUND at .5",
    "the supported boolean skeleton is cmp (AND|OR cmp)* with NOT(cmp) (the grammar has no parenthesised boolean operands)",
    "a WARNING (or higher) log record during compilation counts as loud, as the generator documents for unknown built-ins",
    "STEP(h, t0) = h for t >= t0 (XMILE definition)",
    "comparison results are only used as conditions (IF / AND / OR / NOT), never as numbers in arithmetic",
]

NAME_POOL = ["rate a", "order qty", "android", "if rate", "time to go", "dt factor", "pi r", "information", "notice", "x2 y",
             "total cost", "nan value", "max level", "int rate", "then some", "else case", "and more", "or less", "growth%",
             "abs value", "starttime x", "mod ulus", "q", "co2-level", "sum total"]


def decl_shape(name, shape):
    if shape == "underscore":
        return name.replace(" ", "_")
    if shape == "title":
        return " ".join(w[:1].upper() + w[1:] for w in name.split(" "))
    if shape == "newline":
        return name.replace(" ", "\\n", 1)
    if shape == "upper":
        return name.upper()
    return name


def _nontrivial_tree(t):
    ops = set()
    compound_arg = [False]

    def walk(x):
        if x[0] == "bin":
            ops.add(X.PREC[x[1]])
        elif x[0] == "neg":
            ops.add(X.PREC["neg"])
        elif x[0] == "cmp":
            ops.add(X.PREC["cmp"])
        elif x[0] in ("and", "or"):
            ops.add(X.PREC[x[0]])
        elif x[0] == "call":
            if any(E.children(a) for a in x[2]):
                compound_arg[0] = True
        for c in E.children(x):
            walk(c)
    walk(t)
    return len(ops) >= 2 or compound_arg[0]


def _style(sd):
    return X.Style(parens=sd["parens"], case=sd["case"], space=sd["space"], ref_case=sd["ref_case"], quote=sd["quote"], newline=sd["newline"],
                   bare_if=sd.get("bare_if", False))


MODULES = ["North", "South"]


def module_value(v, mi):
    """constants get a different value in every module (same equation text everywhere else)"""
    if v["tree"][0] == "num" and mi > 0:
        return ["num", v["tree"][1] + 1.5 * mi]
    return v["tree"]


def build_document(case):
    names = {v["id"]: v["name"] for v in case["vars"]}
    if case.get("modules"):
        texts = {}
        mods = {}
        for mi, mname in enumerate(MODULES):
            variables = []
            for v in case["vars"]:
                stl = _style(dict(v["style"]))
                tree = module_value(v, mi)
                txt = print_with_quotes(tree, stl, dict(names))
                texts[v["id"]] = txt
                variables.append({"kind": "aux", "name": decl_shape(v["name"], v["shape"]), "eqn": txt})
            mods[mname] = variables
        last = case["vars"][-1]
        main = [{"kind": "aux", "name": "grand total", "eqn": " + ".join("%s.%s" % (m, last["name"].replace(" ", "_")) for m in MODULES)}]
        return X.document_modules(main, mods, case["start"], case["stop"], case["dt_spec"]), texts
    variables = []
    texts = {}
    for v in case["vars"]:
        sd = dict(v["style"])
        stl = _style(sd)
        # names with characters outside the plain identifier set must be quoted in references
        ref_names = {}
        for vid, nm in names.items():
            ref_names[vid] = nm
        txt = print_with_quotes(v["tree"], stl, ref_names)
        if v.get("mutation"):
            txt = mutate(txt, v["mutation"], names)
        texts[v["id"]] = txt
        variables.append({"kind": "aux", "name": decl_shape(v["name"], v["shape"]), "eqn": txt})
    xml = X.document(variables, case["start"], case["stop"], case["dt_spec"])
    return xml, texts


def print_with_quotes(tree, stl, names):
    class S(X.Style):
        pass
    base_ref = stl.ref

    def ref(name):
        r = base_ref(name)
        if "-" in name and not r.startswith('"'):
            return '"%s"' % r
        return r
    stl.ref = ref
    return X.print_eq(tree, stl, names)


def mutate(txt, mutation, names):
    kind = mutation[0]
    if kind == "dangling":
        return txt + " " + mutation[1]
    if kind == "juxtapose":
        return txt + " " + sorted(names.values())[0].replace(" ", "_")
    if kind == "unknown-fn":
        return "FOOBAR(" + txt + ")"
    if kind == "not-bare":
        return "NOT " + sorted(names.values())[0].replace(" ", "_")
    if kind == "unbalanced":
        return "(" + txt
    if kind == "double-op":
        return txt + " * / 2"
    raise ValueError(kind)


def check_case(case):
    info = {"status": "ok", "programs": 0, "comparisons": 0, "nontrivial": False, "loud": 0, "mutants": 0}
    vs = []
    xml, texts = build_document(case)
    start = float(case["start"])
    dt = float(case["dt_spec"]["dt"]) if "dt" in case["dt_spec"] else 1.0 / float(case["dt_spec"]["reciprocal"])
    stop = float(case["stop"])
    mutated = [v for v in case["vars"] if v.get("mutation")]
    info["mutants"] = len(mutated)
    import logging
    evcap = X.LogCapture()
    logging.getLogger().addHandler(evcap)
    try:
        return _check_compiled(case, xml, texts, start, dt, stop, mutated, info, vs, evcap)
    finally:
        logging.getLogger().removeHandler(evcap)


def _check_compiled(case, xml, texts, start, dt, stop, mutated, info, vs, evcap):
    try:
        model, warns, code = X.compile_and_load(xml, ".")
    except Exception as e:
        if mutated:
            info["status"] = "mutant-loud:compile:" + type(e).__name__
            info["loud"] = 1
            return info, vs
        info["status"] = "rejected:" + type(e).__name__
        info["reason"] = repr(e)[:200]
        return info, vs
    info["programs"] = 1
    if warns and not mutated:
        # the transpiler announced (WARNING or above) that it met something it does not implement: loud by its contract
        info["status"] = "loud-warning:" + warns[0].split(" ")[0][:20]
        info["warning"] = warns[0][:200]
        return info, vs
    # reference values
    mods = MODULES if case.get("modules") else [None]
    for ti, (t, mname) in enumerate([(tt, mm) for tt in (start, float(repr(start + dt))) for mm in mods]):
        env = {}
        mi = mods.index(mname)
        for v0 in case["vars"]:
            v = dict(v0, tree=module_value(v0, mi)) if mname else v0
            key = X.xkey(v["name"]) if not mname else mname.lower() + "." + X.xkey(v["name"])
            want = None
            if not v.get("mutation"):
                try:
                    want = E.RefEval(env, time=t, dt=dt, start=start, stop=stop, xmile=True, limit=1e9).ev(v["tree"])
                except E.Fragile:
                    want = None
                except KeyError:
                    want = None  # depends on a variable without reference value
            try:
                got = model.equation(key, t)
                err = None
            except Exception as e:
                got, err = None, e
            if v.get("mutation"):
                if err is None and not warns:
                    vs.append(Violation("silent:" + v["mutation"][0], "out-of-grammar equation %r for %r compiled silently and evaluates to %r"
                                        % (texts[v["id"]], v["name"], got)))
                else:
                    info["loud"] += 1
                continue
            if want is None:
                continue
            if _nontrivial_tree(v["tree"]):
                info["nontrivial"] = True
            if err is not None:
                if warns:
                    continue
                vs.append(Violation("crash:%s:%s" % (type(err).__name__, E.op_name(v["tree"])), "equation %r (%s) for variable %r: evaluation raised %r"
                                    % (texts[v["id"]], E.show(v["tree"]), v["name"], err)))
                continue
            info["comparisons"] += 1
            if isinstance(want, bool):
                want = float(want)
            env[v["id"]] = want
            if not E.close(got, want, 1e-9) and evcap.records:
                info["status"] = "loud-at-evaluation"
                info["warning"] = evcap.records[0][:200]
                return info, []
            if not E.close(got, want, 1e-9):
                vs.append(Violation(("module:" if mname else "") + _signature(v["tree"], env, t, dt, start, stop, model, case),
                                    "variable %r%s = %r (tree %s) evaluates to %r at t=%r, XMILE meaning %r; style %r"
                                    % (v["name"], (" of module " + mname) if mname else "", texts[v["id"]], E.show(v["tree"]), got, t, want, v["style"])))
        if vs:
            break
    out = {}
    for v in vs:
        out.setdefault(v.signature, v)
    return info, list(out.values())


def _signature(tree, env, t, dt, start, stop, model, case):
    """root-cause key: smallest wrong sub-tree cannot be isolated without recompiling, so use the
    outermost operator and the kinds of its compound children"""
    def kinds(x):
        return ["_" if not E.children(c) else E.op_name(c) for c in E.children(x)]
    # find a call with a compound argument first (macro splicing is the usual root cause)
    found = []

    def walk(x):
        if x[0] == "call" and any(E.children(a) for a in x[2]):
            found.append("call:%s(compound)" % x[1])
        for c in E.children(x):
            walk(c)
    walk(tree)
    if found:
        return "value:" + sorted(set(found))[0]
    return "value:%s:[%s]" % (E.op_name(tree), ",".join(kinds(tree)))


# ---------------------------------------------------------------------------

NUMS = [0, 1, 2, 3, 4, 5, 10, 0.5, 0.25, 1.5, 2.5, 7, 100, 0.1, 1234567, 3.14159265, 6.9999999, 10000019, 0.000123456, 2020.125]


def doc_strategy(max_depth=3, mutants=False):
    @st.composite
    def build(draw):
        nvars = draw(st.integers(3, 8))
        names = draw(st.lists(st.sampled_from(NAME_POOL), min_size=nvars, max_size=nvars, unique=True))
        start = draw(st.sampled_from(["0", "1", "2.5", "10"]))
        dt_spec = draw(st.sampled_from([{"dt": "1"}, {"dt": "0.25"}, {"dt": "0.1"}, {"reciprocal": "4"}, {"reciprocal": "10"}, {"dt": "0.5"}]))
        stop = str(float(start) + 5)
        vars_ = []
        ids = []

        def leaf():
            opts = [st.sampled_from(NUMS).map(lambda v: ["num", v])]
            if ids:
                opts += [st.sampled_from(ids).map(lambda i: ["ref", i])] * 3
            opts.append(st.sampled_from([["time"], ["dt"], ["starttime"], ["stoptime"], ["pi"]]))
            return st.one_of(*opts)

        def num(d):
            if d <= 0:
                return leaf()
            sub = st.deferred(lambda: num(d - 1))
            lit = st.sampled_from(NUMS[1:]).map(lambda v: ["num", v])

            def chain(ops):
                # x op n1 op n2 ... : left-to-right chains of one precedence level with literal operands
                def fold(items):
                    tree = items[0]
                    for o, operand in items[1]:
                        tree = ["bin", o, tree, operand]
                    return tree
                return st.tuples(sub, st.lists(st.tuples(st.sampled_from(ops), st.one_of(lit, lit, leaf())), min_size=2, max_size=4)).map(fold)
            return st.one_of(
                leaf(),
                chain(["*", "/", "%", "*", "/"]), chain(["+", "-"]), chain(["*", "/", "**"]),
                st.tuples(st.sampled_from(["+", "-"]), sub, st.tuples(cond(d - 1), sub, sub).map(lambda x: ["if", x[0], x[1], x[2]])).map(lambda x: ["bin", x[0], x[1], x[2]]),
                st.tuples(st.sampled_from(["+", "-", "*", "/", "+", "-", "*", "**", "%"]), sub, sub).map(lambda x: ["bin", x[0], x[1], x[2]]),
                sub.map(lambda x: ["neg", x]),
                st.tuples(st.sampled_from(["abs", "sqrt", "exp", "ln", "log10", "int", "round", "sin", "cos", "tan", "arctan", "percent"]), sub)
                .map(lambda x: ["call", x[0], [x[1]]]),
                # INT of differences, negations and quotients: negative non-integer arguments are ordinary
                st.tuples(st.sampled_from(["-", "/", "-"]), sub, sub).map(lambda x: ["call", "int", [["bin", x[0], x[1], x[2]]]]),
                sub.map(lambda x: ["call", "int", [["neg", x]]]),
                st.tuples(st.sampled_from(["min", "max", "step"]), sub, sub).map(lambda x: ["call", x[0], [x[1], x[2]]]),
                st.tuples(sub, sub).map(lambda x: ["call", "safediv", [x[0], x[1]]]),
                st.tuples(sub, sub, sub).map(lambda x: ["call", "safediv", [x[0], x[1], x[2]]]),
                st.tuples(cond(d - 1), sub, sub).map(lambda x: ["if", x[0], x[1], x[2]]),
            )

        def cmp_(d):
            sub = num(max(d, 0))
            base = st.tuples(st.sampled_from(E.CMPOPS), sub, sub).map(lambda x: ["cmp", x[0], x[1], x[2]])
            return st.one_of(base, base, base.map(lambda c: ["not", c]))

        def cond(d):
            # OR of ANDs of comparisons: printable without parentheses
            def fold(op, items):
                t = items[0]
                for it in items[1:]:
                    t = [op, t, it]
                return t
            ands = st.lists(cmp_(d), min_size=1, max_size=3).map(lambda xs: fold("and", xs))
            return st.lists(ands, min_size=1, max_size=2).map(lambda xs: fold("or", xs))

        style = st.fixed_dictionaries({
            "parens": st.sampled_from(["min", "min", "full"]),
            "case": st.sampled_from(["upper", "lower", "mixed"]),
            "space": st.sampled_from([" ", "", "  "]),
            "ref_case": st.sampled_from(["lower", "upper", "title"]),
            "quote": st.sampled_from([False, False, True]),
            "newline": st.booleans(), "bare_if": st.booleans()})
        for i, nm in enumerate(names):
            vid = "v%d" % i
            if i < 2:
                tree = ["num", draw(st.sampled_from([v for v in NUMS if v > 0]))]
            else:
                tree = draw(num(draw(st.integers(1, max_depth))))
            v = {"id": vid, "name": nm, "shape": draw(st.sampled_from(["space", "underscore", "title", "newline", "upper"])),
                 "tree": tree, "style": draw(style)}
            vars_.append(v)
            ids.append(vid)
        if mutants:
            k = draw(st.integers(2, nvars - 1))
            vars_[k]["mutation"] = draw(st.sampled_from([["dangling", "+"], ["dangling", "*"], ["juxtapose"], ["unknown-fn"], ["not-bare"],
                                                         ["unbalanced"], ["double-op"]]))
            # variables after the mutant must not depend on it
            for v in vars_[k + 1:]:
                v["tree"] = _strip_ref(v["tree"], vars_[k]["id"])
        case = {"vars": vars_, "start": start, "stop": stop, "dt_spec": dt_spec}
        if not mutants and draw(st.integers(0, 4)) == 0:
            case["modules"] = True
        return case
    return build()


def _strip_ref(t, vid):
    if t[0] == "ref" and t[1] == vid:
        return ["num", 1]
    if t[0] == "call":
        return ["call", t[1], [_strip_ref(a, vid) for a in t[2]]]
    if t[0] in ("bin", "cmp"):
        return [t[0], t[1], _strip_ref(t[2], vid), _strip_ref(t[3], vid)]
    if t[0] in ("neg", "not"):
        return [t[0], _strip_ref(t[1], vid)]
    if t[0] in ("and", "or"):
        return [t[0], _strip_ref(t[1], vid), _strip_ref(t[2], vid)]
    if t[0] == "if":
        return ["if", _strip_ref(t[1], vid), _strip_ref(t[2], vid), _strip_ref(t[3], vid)]
    return t


def _body(ctx):
    def body(case):
        E.NOTES.clear()
        info, vs = check_case(case)
        for k_, n_ in E.NOTES.items():
            ctx.extra["reference_met:" + k_] += n_
        ctx.extra["programs"] += info["programs"]
        ctx.extra["disagreements_checked"] += info["comparisons"]
        ctx.extra["mutants_loud"] += info["loud"]
        labels = [info["status"].split(":")[0] + (":" + info["status"].split(":")[-1] if ":" in info["status"] else "")]
        if case.get("modules"):
            labels.append("two-modules")
        if info["mutants"]:
            labels.append("with-mutant:" + [v for v in case["vars"] if v.get("mutation")][0]["mutation"][0])
        xml, texts = build_document(case)
        sample = {"equations": {v["name"]: texts[v["id"]] for v in case["vars"]}, "dt": case["dt_spec"], "start": case["start"],
                  "status": info["status"]}
        if info["status"].startswith("rejected"):
            sample["reason"] = info.get("reason")
        if info.get("warning"):
            sample["warning"] = info["warning"]
        ctx.case(sample, nontrivial=info["nontrivial"] and info["programs"] == 1, labels=labels, key=xml)
        ctx.report(vs)
    return body


def plan(tier):
    n = 200 if tier == "quick" else 4000
    specs = [{"n": n, "depth": 2 + (i % 3), "mutants": False} for i in range(12)]
    specs += [{"n": n // 2, "depth": 2, "mutants": True} for i in range(4)]
    return specs


def run_shard(spec, ctx):
    ctx.extra["programs"] = 0
    ctx.extra["disagreements_checked"] = 0
    ctx.extra["mutants_loud"] = 0
    ctx.hyp(doc_strategy(spec["depth"], spec["mutants"]), _body(ctx), spec["n"])
