"""C20 - after a server crash, externalised sessions continue as if nothing happened.

Generator: session histories of N stepping requests over 1-3 instances (run-step / run-steps with
settings) x EVERY crash point k in 0..N (exhaustive per history) x restart style (state files present
at start-up / loaded lazily on first request) x torn writes (state file of one instance truncated at
each length class, or replaced by garbage) before the restart.
Oracle: differential against the uninterrupted run of the same history - every response after the
restart equals the corresponding response of the uninterrupted run; with a damaged file the new
server starts, the other instances continue correctly and only the damaged instance is refused.
"""
import json
import os
import shutil
import tempfile

from hypothesis import strategies as st

from vf.props import c19
from vf.runner import Violation

ID = "C20"
LEVEL = "fault_enumeration"
TECHNIQUE = "generated session histories (Hypothesis) x exhaustive crash points x torn-write classes; differential against the uninterrupted run"
RULE = ("cases = (history of N <= 8 (thorough 20) requests - run-step / run-steps with settings per manager, save-state, a new begin-session - over 1-3 instances, "
        "sessions over one or two SD scenario managers, begin-session with or without settings, start/dt) and for each history every "
        "crash point k in 0..N and both restart styles, plus 6 damage classes of one instance's state file; an evaluation = one "
        "(history, crash point or damage class, restart style). Post-restart responses of every externalised instance must equal the "
        "uninterrupted run's. non-trivial = 0 < k < N with a setting applied before k, or a damaged file with >= 1 healthy sibling; "
        "distinct by (history, fault)")
ASSUMPTIONS = [
    "a crash is modelled by dropping the server object between two requests (state on disk is whatever the last save left)",
    "only instances whose current session had been externalised before the crash (a stepping request or GET /save-state after its begin-session) are required to continue; a begin-session that nothing has written yet is not externalised",
    "bodies are compared as parsed JSON with numerically compared keys",
    "settings applied in an earlier session of the same instance linger in its scenarios and are in no session's externalised state; the statement speaks of the continuing session only, so an instance is not compared from a second begin-session that follows such settings",
]
EXHAUSTIVE_SCOPE = "per generated history: every crash point k in 0..N x {start-up load, lazy load}, and every damage class in c20.DAMAGE"

SM, SC = c19.SM, c19.SC
DAMAGE = ["empty", "one-byte", "cut-outer", "cut-inner", "last-byte", "garbage"]


SM2 = c19.SM2


def _send(client, iid, req, case=None):
    kind = req[0]
    two = bool(case and case.get("two"))
    if kind == "step":
        body = c19.settings_body(req[1], (req[2] if len(req) > 2 else None) if two else None)
        if body is None:
            return client.post("/%s/run-step" % iid)
        return client.post("/%s/run-step" % iid, json=body)
    if kind == "steps":
        body = c19.settings_body(req[2], (req[3] if len(req) > 3 else None) if two else None) or {"settings": {}}
        return client.post("/%s/run-steps" % iid, json=dict(body, numberSteps=req[1]))
    if kind == "save":
        return client.get("/save-state")
    if kind == "begin":
        return _begin(client, iid, case, req[1], req[2] if len(req) > 2 else None)
    raise ValueError(kind)


def _begin(client, iid, case, bs, eqs=None):
    body = {"scenario_managers": [SM, SM2] if case.get("two") else [SM], "scenarios": [SC], "equations": eqs or case["equations"]}
    sb = c19.settings_body(*(bs or [None, None]))
    if sb is not None and sb["settings"]:
        body["settings"] = sb["settings"]
    return client.post("/%s/begin-session" % iid, json=body)


def _stepping(req):
    return req[0] in ("step", "steps")


def _norm(resp):
    try:
        body = json.loads(resp.get_data(as_text=True))
    except Exception:
        body = resp.get_data(as_text=True)

    def fk(v):
        if isinstance(v, dict):
            out = {}
            for k, x in v.items():
                try:
                    kk = float(k)
                except (TypeError, ValueError):
                    kk = k
                out[kk] = fk(x)
            return out
        if isinstance(v, list):
            return [fk(x) for x in v]
        return v
    return [resp.status_code, fk(body)]


class Run:
    def __init__(self, case, adir):
        self.case = case
        self.adir = adir
        self.made = []
        self.start = float(case["start"])
        self.dt = float(case["dt"])
        self.stop = self.start + 60 * self.dt
        self.ids = {}

    def server(self):
        from BPTK_Py import BptkServer, FileAdapter
        app = BptkServer(__name__, bptk_factory=c19.make_factory(self.start, self.stop, self.dt, self.made, bool(self.case.get("two"))),
                         external_state_adapter=FileAdapter(bool(self.case.get("compress")), self.adir))
        app.logger.disabled = True
        return app

    def begin(self, client, ninst):
        for i in range(ninst):
            iid = json.loads(client.post("/start-instance").data)["instance_uuid"]
            self.ids[i] = iid
            bs = (self.case.get("begin_settings") or [None] * ninst)[i]
            _begin(client, iid, self.case, bs)
        if self.case.get("spare"):
            # a sibling on which no session has been begun
            self.spare = json.loads(client.post("/start-instance").data)["instance_uuid"]

    def close(self):
        for b in self.made:
            try:
                b.destroy()
            except Exception:
                pass


def uninterrupted(case, adir):
    run = Run(case, adir)
    try:
        app = run.server()
        c = app.test_client()
        run.begin(c, case["ninst"])
        out = []
        for inst, req in case["requests"]:
            out.append(_norm(_send(c, run.ids[inst], req, case)))
        return out
    finally:
        run.close()


def with_crash(case, k, lazy, damage=None):
    """returns (responses for requests k.., ids externalised before the crash, constructor_error)"""
    adir = tempfile.mkdtemp(prefix="c20_", dir=".")
    run = Run(case, adir)
    try:
        app = run.server()
        c = app.test_client()
        run.begin(c, case["ninst"])
        ext = set()  # instances whose CURRENT session has been written to the external state
        for inst, req in case["requests"][:k]:
            _send(c, run.ids[inst], req, case)
            if _stepping(req):
                ext.add(inst)
            elif req[0] == "save":
                ext.update(range(case["ninst"]))
            elif req[0] == "begin":
                ext.discard(inst)  # the new session exists in memory only until a step or a save-state writes it
        del app, c  # the process is lost
        if damage is not None:
            victim, how = damage
            path = os.path.join(adir, run.ids[victim] + ".json")
            if os.path.exists(path):
                data = open(path, "rb").read()
                inner = data.find(b"py/") if b"py/" in data else len(data) // 2
                new = {"empty": b"", "one-byte": data[:1], "cut-outer": data[:20], "cut-inner": data[:max(inner + 5, len(data) * 2 // 3)],
                       "last-byte": data[:-1], "garbage": b"\x00\xff not json at all {{{"}[how]
                open(path, "wb").write(new)
        hidden = None
        if lazy:
            hidden = tempfile.mkdtemp(prefix="c20h_", dir=".")
            for fn in os.listdir(adir):
                shutil.move(os.path.join(adir, fn), os.path.join(hidden, fn))
        try:
            app2 = run.server()
        except Exception as e:
            return None, ext, e
        finally:
            if hidden:
                for fn in os.listdir(hidden):
                    shutil.move(os.path.join(hidden, fn), os.path.join(adir, fn))
                shutil.rmtree(hidden, ignore_errors=True)
        c2 = app2.test_client()
        out = []
        for inst, req in case["requests"][k:]:
            out.append(_norm(_send(c2, run.ids[inst], req, case)))
        return out, ext, None
    finally:
        run.close()
        shutil.rmtree(adir, ignore_errors=True)


def check_case(case):
    """case may carry 'fault': {"k":..,"lazy":..,"damage":[victim, how]|None}; without it all faults are enumerated"""
    vs = []
    info = {"evaluations": [], }
    adir = tempfile.mkdtemp(prefix="c20u_", dir=".")
    try:
        base = uninterrupted(case, adir)
    finally:
        shutil.rmtree(adir, ignore_errors=True)
    reqs = case["requests"]
    N = len(reqs)
    if "fault" in case:
        faults = [case["fault"]]
    else:
        faults = [{"k": k, "lazy": lazy, "damage": None} for k in range(N + 1) for lazy in (False, True)]
        if N >= 1:
            for how in DAMAGE:
                faults.append({"k": N if N < 3 else N - 1, "lazy": False, "damage": [0, how]})
                faults.append({"k": N if N < 3 else N - 1, "lazy": True, "damage": [0, how]})
    # settings of an earlier session of the same instance linger in its scenarios (they are not part of any session's
    # externalised state, and the statement only speaks of the session that continues): from a second begin-session after
    # such settings on, the instance is not compared
    tainted_from = {}
    had = {i: bool(b_ and any(b_)) for i, b_ in enumerate(case.get("begin_settings") or [None] * case["ninst"])}
    for j, (inst, req) in enumerate(reqs):
        if req[0] == "begin":
            if had.get(inst) and inst not in tainted_from:
                tainted_from[inst] = j
            if req[1] and any(req[1]):
                had[inst] = True
        elif _stepping(req) and any(x for x in req[1:] if isinstance(x, dict)):
            had[inst] = True
    for fault in faults:
        k, lazy, damage = fault["k"], fault["lazy"], fault.get("damage")
        out, ext, err = with_crash(case, k, lazy, tuple(damage) if damage else None)
        settings_before = any(any(x for x in r[1][1:] if isinstance(x, dict)) for r in reqs[:k] if _stepping(r[1])) or \
            any(x for b_ in (case.get("begin_settings") or []) if b_ for x in b_)
        nt = (0 < k < N and settings_before) if damage is None else (case["ninst"] >= 2)
        info["evaluations"].append((fault, nt))
        style = "lazy" if lazy else "startup"
        if err is not None:
            vs.append(Violation("restart-failed:%s:%s" % (style, "damaged-file:" + damage[1] if damage else "intact"),
                                "a new server on the external state could not be constructed after a crash at k=%d: %r" % (k, err), case=dict(case, fault=fault)))
            continue
        for j, (inst, req) in enumerate(reqs[k:]):
            want = base[k + j]
            got = out[j]
            if damage is not None and inst == damage[0]:
                # the damaged instance may be refused, but it must not take the server down (any answer is fine)
                continue
            if inst in tainted_from and k + j >= tainted_from[inst]:
                continue
            if req[0] == "begin":
                if got[0] == 200:
                    ext.add(inst)  # a session begun on the new server is live there
                elif inst in ext and want[0] == 200:
                    vs.append(Violation("after-restart:begin-refused:%s" % style, "crash after request %d of %d: begin-session on restored instance %d answered %r; history %r"
                                        % (k, N, inst, got, reqs), case=dict(case, fault=fault)))
                    break
                else:
                    ext.discard(inst)
                continue
            if req[0] == "save":
                continue  # the answer lists timestamps
            if inst not in ext:
                continue  # its current session was never externalised before the crash: nothing to continue
            if got != want:
                what = "status" if got[0] != want[0] else "values"
                miss = ""
                if what == "values" and isinstance(got[1], (dict, list)) and isinstance(want[1], (dict, list)):
                    g0 = got[1][0] if isinstance(got[1], list) and got[1] else got[1]
                    w0 = want[1][0] if isinstance(want[1], list) and want[1] else want[1]
                    try:
                        if set(g0[SM][SC].keys()) != set(w0[SM][SC].keys()):
                            what = "equation-missing"
                    except Exception:
                        pass
                sig = "after-restart:%s:%s:%s" % (what, style, "sibling-of-damaged" if damage else ("settings-before-crash" if settings_before else "no-settings-before-crash"))
                vs.append(Violation(sig, "crash after request %d of %d (%s load%s): request #%d %r of instance %d answered %r, the uninterrupted session answers %r; history %r"
                                    % (k, N, style, ", damaged file %r" % (damage,) if damage else "", k + j, req, inst, got, want, reqs), case=dict(case, fault=fault)))
                break
    out = {}
    for v in vs:
        out.setdefault(v.signature, v)
    return info, list(out.values())


def history_strategy(max_n):
    setting = st.one_of(st.none(), st.just({}),
                        st.sampled_from([0.5, 1.0, 3.0, 7.0]).map(lambda v: {"constants": {"k": v}}),
                        st.sampled_from([1.0, 5.0, 20.0]).map(lambda v: {"points": {"p": [[0.0, 0.0], [10.0, v]]}}))
    bset = st.one_of(st.none(), st.none(), st.tuples(setting, setting).map(list))
    step = st.tuples(setting, setting).map(lambda x: ["step", x[0], x[1]])
    req = st.one_of(step, step, step, st.tuples(st.integers(1, 3), setting, setting).map(lambda x: ["steps", x[0], x[1], x[2]]),
                    st.just(["save"]),
                    st.tuples(bset, st.sampled_from([["s"], ["s", "f"], ["k", "c", "s"], ["f", "c"]])).map(lambda x: ["begin", x[0], x[1]]))

    @st.composite
    def build(draw):
        ninst = draw(st.integers(1, 3))
        n = draw(st.integers(1, max_n))
        requests = [[draw(st.integers(0, ninst - 1)), draw(req)] for _ in range(n)]
        return {"start": draw(st.sampled_from(["0", "1", "2.5", "8", "9.5", "98"])), "dt": draw(st.sampled_from(["1", "0.5", "0.25"])),
                "equations": draw(st.sampled_from([["s"], ["s", "f"], ["k", "c", "s"]])), "ninst": ninst, "requests": requests,
                "two": draw(st.booleans()), "spare": draw(st.sampled_from([False, False, True])), "begin_settings": [draw(bset) for _ in range(ninst)],
                "compress": draw(st.booleans())}
    return build()


def _body(ctx):
    def body(case):
        info, vs = check_case(case)
        for fault, nt in info["evaluations"]:
            ctx.case({"history": case["requests"], "start": case["start"], "dt": case["dt"], "fault": fault}, nontrivial=nt,
                     labels=["fault:" + ("damage:" + fault["damage"][1] if fault.get("damage") else "crash"), "restart:" + ("lazy" if fault["lazy"] else "startup"),
                             "managers:%d" % (2 if case.get("two") else 1)] + (["with-sessionless-sibling"] if case.get("spare") else []) + sorted(set("req:" + r[1][0] for r in case["requests"])) +
                     (["begin-settings"] if any(case.get("begin_settings") or []) else []),
                     key=[case, fault])
        ctx.extra["histories"] += 1
        ctx.report(vs)
    return body


def plan(tier):
    n = 30 if tier == "quick" else 300
    mn = 8 if tier == "quick" else 20
    return [{"n": n, "max_n": mn} for _ in range(16)]


def run_shard(spec, ctx):
    ctx.extra["histories"] = 0
    ctx.hyp(history_strategy(spec["max_n"]), _body(ctx), spec["n"])
    ctx.exhaustive = True
