"""C20 - after a server crash, externalised sessions continue as if nothing happened.

Generator: session histories of N stepping requests over 1-3 instances (run-step / run-steps with
settings) x EVERY crash point k in 0..N (exhaustive per history) x restart style (state files present
at start-up / loaded lazily on first request) x torn writes (state file of one instance truncated at
each length class, or replaced by garbage) before the restart.
Oracle: differential against the uninterrupted run of the same history - every response after the
restart equals the corresponding response of the uninterrupted run; with a damaged file the new
server starts, the other instances continue correctly and only the damaged instance is refused.
"""
import json
import os
import shutil
import tempfile

from hypothesis import strategies as st

from vf.props import c19
from vf.runner import Violation

ID = "C20"
LEVEL = "fault_enumeration"
TECHNIQUE = "generated session histories (Hypothesis) x exhaustive crash points x torn-write classes; differential against the uninterrupted run"
RULE = ("cases = (history of N <= 8 (thorough 20) stepping requests over 1-3 instances with settings, start/dt) and for each history every "
        "crash point k in 0..N and both restart styles, plus 6 damage classes of one instance's state file; an evaluation = one "
        "(history, crash point or damage class, restart style). Post-restart responses of every externalised instance must equal the "
        "uninterrupted run's. non-trivial = 0 < k < N with a setting applied before k, or a damaged file with >= 1 healthy sibling; "
        "distinct by (history, fault)")
ASSUMPTIONS = [
    "a crash is modelled by dropping the server object between two requests (state on disk is whatever the last save left)",
    "only instances that had been externalised before the crash (>= 1 stepping request) are required to continue",
    "bodies are compared as parsed JSON with numerically compared keys",
]
EXHAUSTIVE_SCOPE = "per generated history: every crash point k in 0..N x {start-up load, lazy load}, and every damage class in c20.DAMAGE"

SM, SC = c19.SM, c19.SC
DAMAGE = ["empty", "one-byte", "cut-outer", "cut-inner", "last-byte", "garbage"]


def _send(client, iid, req):
    kind = req[0]
    if kind == "step":
        if req[1] is None:
            return client.post("/%s/run-step" % iid)
        return client.post("/%s/run-step" % iid, json={"settings": {SM: {SC: req[1]}} if req[1] else {}})
    if kind == "steps":
        return client.post("/%s/run-steps" % iid, json={"numberSteps": req[1], "settings": {SM: {SC: req[2]}} if req[2] else {}})
    raise ValueError(kind)


def _norm(resp):
    try:
        body = json.loads(resp.get_data(as_text=True))
    except Exception:
        body = resp.get_data(as_text=True)

    def fk(v):
        if isinstance(v, dict):
            out = {}
            for k, x in v.items():
                try:
                    kk = float(k)
                except (TypeError, ValueError):
                    kk = k
                out[kk] = fk(x)
            return out
        if isinstance(v, list):
            return [fk(x) for x in v]
        return v
    return [resp.status_code, fk(body)]


class Run:
    def __init__(self, case, adir):
        self.case = case
        self.adir = adir
        self.made = []
        self.start = float(case["start"])
        self.dt = float(case["dt"])
        self.stop = self.start + 60 * self.dt
        self.ids = {}

    def server(self):
        from BPTK_Py import BptkServer, FileAdapter
        app = BptkServer(__name__, bptk_factory=c19.make_factory(self.start, self.stop, self.dt, self.made),
                         external_state_adapter=FileAdapter(bool(self.case.get("compress")), self.adir))
        app.logger.disabled = True
        return app

    def begin(self, client, ninst):
        for i in range(ninst):
            iid = json.loads(client.post("/start-instance").data)["instance_uuid"]
            self.ids[i] = iid
            client.post("/%s/begin-session" % iid, json={"scenario_managers": [SM], "scenarios": [SC], "equations": self.case["equations"]})

    def close(self):
        for b in self.made:
            try:
                b.destroy()
            except Exception:
                pass


def uninterrupted(case, adir):
    run = Run(case, adir)
    try:
        app = run.server()
        c = app.test_client()
        run.begin(c, case["ninst"])
        out = []
        for inst, req in case["requests"]:
            out.append(_norm(_send(c, run.ids[inst], req)))
        return out
    finally:
        run.close()


def with_crash(case, k, lazy, damage=None):
    """returns (responses for requests k.., ids externalised before the crash, constructor_error)"""
    adir = tempfile.mkdtemp(prefix="c20_", dir=".")
    run = Run(case, adir)
    try:
        app = run.server()
        c = app.test_client()
        run.begin(c, case["ninst"])
        ext = set()
        for inst, req in case["requests"][:k]:
            _send(c, run.ids[inst], req)
            ext.add(inst)
        del app, c  # the process is lost
        if damage is not None:
            victim, how = damage
            path = os.path.join(adir, run.ids[victim] + ".json")
            if os.path.exists(path):
                data = open(path, "rb").read()
                inner = data.find(b"py/") if b"py/" in data else len(data) // 2
                new = {"empty": b"", "one-byte": data[:1], "cut-outer": data[:20], "cut-inner": data[:max(inner + 5, len(data) * 2 // 3)],
                       "last-byte": data[:-1], "garbage": b"\x00\xff not json at all {{{"}[how]
                open(path, "wb").write(new)
        hidden = None
        if lazy:
            hidden = tempfile.mkdtemp(prefix="c20h_", dir=".")
            for fn in os.listdir(adir):
                shutil.move(os.path.join(adir, fn), os.path.join(hidden, fn))
        try:
            app2 = run.server()
        except Exception as e:
            return None, ext, e
        finally:
            if hidden:
                for fn in os.listdir(hidden):
                    shutil.move(os.path.join(hidden, fn), os.path.join(adir, fn))
                shutil.rmtree(hidden, ignore_errors=True)
        c2 = app2.test_client()
        out = []
        for inst, req in case["requests"][k:]:
            out.append(_norm(_send(c2, run.ids[inst], req)))
        return out, ext, None
    finally:
        run.close()
        shutil.rmtree(adir, ignore_errors=True)


def check_case(case):
    """case may carry 'fault': {"k":..,"lazy":..,"damage":[victim, how]|None}; without it all faults are enumerated"""
    vs = []
    info = {"evaluations": [], }
    adir = tempfile.mkdtemp(prefix="c20u_", dir=".")
    try:
        base = uninterrupted(case, adir)
    finally:
        shutil.rmtree(adir, ignore_errors=True)
    reqs = case["requests"]
    N = len(reqs)
    if "fault" in case:
        faults = [case["fault"]]
    else:
        faults = [{"k": k, "lazy": lazy, "damage": None} for k in range(N + 1) for lazy in (False, True)]
        if N >= 1:
            for how in DAMAGE:
                faults.append({"k": N if N < 3 else N - 1, "lazy": False, "damage": [0, how]})
                faults.append({"k": N if N < 3 else N - 1, "lazy": True, "damage": [0, how]})
    for fault in faults:
        k, lazy, damage = fault["k"], fault["lazy"], fault.get("damage")
        out, ext, err = with_crash(case, k, lazy, tuple(damage) if damage else None)
        settings_before = any(r[1][1] if r[1][0] == "step" else r[1][2] for r in reqs[:k])
        nt = (0 < k < N and settings_before) if damage is None else (case["ninst"] >= 2)
        info["evaluations"].append((fault, nt))
        style = "lazy" if lazy else "startup"
        if err is not None:
            vs.append(Violation("restart-failed:%s:%s" % (style, "damaged-file:" + damage[1] if damage else "intact"),
                                "a new server on the external state could not be constructed after a crash at k=%d: %r" % (k, err), case=dict(case, fault=fault)))
            continue
        for j, (inst, req) in enumerate(reqs[k:]):
            want = base[k + j]
            got = out[j]
            if damage is not None and inst == damage[0]:
                # the damaged instance may be refused, but it must not take the server down (any answer is fine)
                continue
            if inst not in ext:
                continue  # never externalised before the crash: nothing to continue
            if got != want:
                what = "status" if got[0] != want[0] else "values"
                miss = ""
                if what == "values" and isinstance(got[1], (dict, list)) and isinstance(want[1], (dict, list)):
                    g0 = got[1][0] if isinstance(got[1], list) and got[1] else got[1]
                    w0 = want[1][0] if isinstance(want[1], list) and want[1] else want[1]
                    try:
                        if set(g0[SM][SC].keys()) != set(w0[SM][SC].keys()):
                            what = "equation-missing"
                    except Exception:
                        pass
                sig = "after-restart:%s:%s:%s" % (what, style, "sibling-of-damaged" if damage else ("settings-before-crash" if settings_before else "no-settings-before-crash"))
                vs.append(Violation(sig, "crash after request %d of %d (%s load%s): request #%d %r of instance %d answered %r, the uninterrupted session answers %r; history %r"
                                    % (k, N, style, ", damaged file %r" % (damage,) if damage else "", k + j, req, inst, got, want, reqs), case=dict(case, fault=fault)))
                break
    out = {}
    for v in vs:
        out.setdefault(v.signature, v)
    return info, list(out.values())


def history_strategy(max_n):
    setting = st.one_of(st.none(), st.just({}),
                        st.sampled_from([0.5, 1.0, 3.0, 7.0]).map(lambda v: {"constants": {"k": v}}),
                        st.sampled_from([1.0, 5.0, 20.0]).map(lambda v: {"points": {"p": [[0.0, 0.0], [10.0, v]]}}))
    req = st.one_of(setting.map(lambda s: ["step", s]), setting.map(lambda s: ["step", s]),
                    st.tuples(st.integers(1, 3), setting).map(lambda x: ["steps", x[0], x[1]]))

    @st.composite
    def build(draw):
        ninst = draw(st.integers(1, 3))
        n = draw(st.integers(1, max_n))
        requests = [[draw(st.integers(0, ninst - 1)), draw(req)] for _ in range(n)]
        return {"start": draw(st.sampled_from(["0", "1", "2.5", "8", "9.5", "98"])), "dt": draw(st.sampled_from(["1", "0.5", "0.25"])),
                "equations": draw(st.sampled_from([["s"], ["s", "f"], ["k", "c", "s"]])), "ninst": ninst, "requests": requests,
                "compress": draw(st.booleans())}
    return build()


def _body(ctx):
    def body(case):
        info, vs = check_case(case)
        for fault, nt in info["evaluations"]:
            ctx.case({"history": case["requests"], "start": case["start"], "dt": case["dt"], "fault": fault}, nontrivial=nt,
                     labels=["fault:" + ("damage:" + fault["damage"][1] if fault.get("damage") else "crash"), "restart:" + ("lazy" if fault["lazy"] else "startup")],
                     key=[case, fault])
        ctx.extra["histories"] += 1
        ctx.report(vs)
    return body


def plan(tier):
    n = 10 if tier == "quick" else 120
    mn = 8 if tier == "quick" else 20
    return [{"n": n, "max_n": mn} for _ in range(16)]


def run_shard(spec, ctx):
    ctx.extra["histories"] = 0
    ctx.hyp(history_strategy(spec["max_n"]), _body(ctx), spec["n"])
    ctx.exhaustive = True
