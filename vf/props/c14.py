"""C14 - agent registry stays consistent under creation, deletion and reconfiguration.

Generator: every operation sequence up to a length bound over a 10-letter alphabet
(bounded-exhaustive) + random long histories (Hypothesis lists of operations).
Oracle: dict-based reference registry (id -> (type, state)) with a monotone id counter;
after every operation all registry queries are compared with the reference.
"""
import itertools

from hypothesis import strategies as st

from vf.runner import Violation

ID = "C14"
LEVEL = "exploration"
TECHNIQUE = "bounded-exhaustive operation sequences + random histories (Hypothesis) vs dict reference registry"
RULE = ("cases = sequences of create_agent(A|B), create_agents, delete_agent(first|middle|last|absent), delete_agents, "
        "configure_agents (full, partial, duplicate type, empty), reset, state change, a factory whose initialize raises, an agent that creates agents while being initialised; all sequences up to the length bound are enumerated, random histories up to "
        "length 60 beyond; after every operation ids/lookup/per-type lists/counts/per-state counts/next_agent/random_agents are "
        "compared with a dict reference. non-trivial = a query is made after a deletion that left some live agent with "
        "id != position in the agent list; distinct by operation sequence")
ASSUMPTIONS = [
    "per-type id lists are compared as multisets (the statement fixes membership, not order)",
    "agents are created through registered agent factories, as the framework documents",
]
EXHAUSTIVE_SCOPE = "all operation sequences of length <= L over the alphabet c14.ALPHABET (L=4 quick, L=5 thorough)"

ALPHABET = ["createA", "createB", "create2A", "delFirst", "delMiddle", "delLast", "delAbsent", "delSet", "configure", "reset",
            "busy"]
# used by the random histories only (the exhaustive part keeps the 11-letter alphabet)
EXTRA = ["configureA", "configureDup", "configureEmpty", "createFailing", "createNested"]
TYPES = ["A", "B"]
STATES = ["active", "busy", "inactive", "act", "busy2", "idle"]  # queried states: some never occur, some contain the name of a state that does


def _mk_model():
    from BPTK_Py import Agent, DataCollector, Model, SimultaneousScheduler

    class AgA(Agent):
        def initialize(self):
            self.agent_type = "A"
            self.state = "active"

    class AgB(Agent):
        def initialize(self):
            self.agent_type = "B"
            self.state = "active"

    m = Model(starttime=0, stoptime=5, dt=1, name="reg", scheduler=SimultaneousScheduler(), data_collector=DataCollector())
    class AgF(Agent):
        """an agent whose initialisation fails (e.g. invalid properties)"""
        def initialize(self):
            self.agent_type = "A"
            raise ValueError("cannot initialise")

    class AgP(Agent):
        """a parent that creates two children while it is being initialised"""
        def initialize(self):
            self.agent_type = "B"
            self.state = "active"
            self.model.create_agent("A", {})
            self.model.create_agent("A", {})

    m.register_agent_factory("A", lambda agent_id, model, properties: (AgF if (properties or {}).get("fail") else AgA)(agent_id, model, properties))
    m.register_agent_factory("B", lambda agent_id, model, properties: (AgP if (properties or {}).get("nested") else AgB)(agent_id, model, properties))
    return m


class RefReg:
    def __init__(self):
        self.live = {}  # id -> [type, state], insertion ordered
        self.next_id = 0
        self.ever = set()

    def create(self, ty):
        i = self.next_id
        self.next_id += 1
        self.live[i] = [ty, "active"]
        self.ever.add(i)
        return i

    def delete(self, ids):
        for i in ids:
            self.live.pop(i, None)

    def clear(self):
        self.live = {}


def _apply(op, m, ref):
    ids = list(ref.live.keys())
    if op == "createA":
        a = m.create_agent("A", {})
        return ("created", [a.id], ["A"])
    if op == "createB":
        a = m.create_agent("B", {})
        return ("created", [a.id], ["B"])
    if op == "create2A":
        before = set(x.id for x in m.agents)
        m.create_agents({"name": "A", "count": 2})
        new = [x.id for x in m.agents if x.id not in before]
        return ("created", new, ["A", "A"])
    if op in ("delFirst", "delMiddle", "delLast"):
        if not ids:
            target = 0
        else:
            target = {"delFirst": ids[0], "delMiddle": ids[len(ids) // 2], "delLast": ids[-1]}[op]
        m.delete_agent(target)
        return ("deleted", [target], None)
    if op == "delAbsent":
        target = ref.next_id + 5
        m.delete_agent(target)
        return ("deleted", [target], None)
    if op == "delSet":
        tg = [ids[0], ids[-1]] if ids else []
        m.delete_agents(tg)
        return ("deleted", tg, None)
    if op in ("configureA", "configureDup", "configureEmpty"):
        cfg = {"configureA": [{"name": "A", "count": 2}], "configureDup": [{"name": "A", "count": 1}, {"name": "B", "count": 1}, {"name": "A", "count": 2}],
               "configureEmpty": []}[op]
        m.configure_agents(cfg)
        new = [x.id for x in m.agents]
        types = [t for c in cfg for t in [c["name"]] * c["count"]]
        return ("configured", new, types)
    if op == "createFailing":
        try:
            m.create_agent("A", {"fail": True})
        except ValueError:
            pass
        return ("failed-create", [], None)
    if op == "createNested":
        before = set(x.id for x in m.agents)
        p = m.create_agent("B", {"nested": True})
        new = sorted(x.id for x in m.agents if x.id not in before)
        # the parent gets its id first, the children the next two
        return ("created", new, ["B", "A", "A"])
    if op == "configure":
        before = set(x.id for x in m.agents)
        m.configure_agents([{"name": "A", "count": 1}, {"name": "B", "count": 2}])
        new = [x.id for x in m.agents]
        return ("configured", new, ["A", "B", "B"])
    if op == "reset":
        m.reset()
        return ("cleared", [], None)
    if op == "busy":
        # first live agent of type A becomes busy
        for i, (ty, stt) in ref.live.items():
            if ty == "A":
                ag = m.agent(i)
                if ag is not None:
                    ag.state = "busy"
                return ("state", [i], None)
        return ("noop", [], None)
    raise ValueError(op)


def _queries(m, ref, vs, step, op):
    def bad(sig, detail):
        vs.append(Violation(sig, "after op #%d (%s): %s" % (step, op, detail)))

    try:
        real_ids = [a.id for a in m.agents]
    except Exception as e:
        bad("crash:agents", repr(e))
        return
    if len(set(real_ids)) != len(real_ids):
        bad("ids-not-unique", "agent ids %r" % real_ids)
    if sorted(real_ids) != sorted(ref.live):
        bad("live-set", "live ids %r expected %r" % (sorted(real_ids), sorted(ref.live)))
    # lookup by id
    for i in sorted(ref.ever | {ref.next_id + 5}):
        try:
            ag = m.agent(i)
        except Exception as e:
            bad("crash:agent()", "agent(%d) raised %r" % (i, e))
            continue
        if i in ref.live:
            if ag is None or ag.id != i:
                bad("lookup-live", "agent(%d) returned %r" % (i, None if ag is None else ag.id))
            elif ag.agent_type != ref.live[i][0]:
                bad("lookup-type", "agent(%d) has type %r expected %r" % (i, ag.agent_type, ref.live[i][0]))
        elif ag is not None:
            bad("lookup-dead", "agent(%d) returned agent id %r for a dead id" % (i, ag.id))
    for ty in TYPES:
        want = sorted(i for i, (t, s) in ref.live.items() if t == ty)
        try:
            got = sorted(m.agent_ids(ty))
            if got != want:
                bad("agent_ids", "agent_ids(%s)=%r expected %r" % (ty, got, want))
        except Exception as e:
            bad("crash:agent_ids", repr(e))
        try:
            c = m.agent_count(ty)
            if c != len(want):
                bad("agent_count", "agent_count(%s)=%r expected %d" % (ty, c, len(want)))
        except Exception as e:
            bad("crash:agent_count", repr(e))
        for stt in STATES:
            wc = sum(1 for i, (t, s) in ref.live.items() if t == ty and s == stt)
            try:
                c = m.agent_count_per_state(ty, stt)
                if c != wc:
                    bad("agent_count_per_state:wrong", "agent_count_per_state(%s,%s)=%r expected %d; live=%r"
                        % (ty, stt, c, wc, dict(ref.live)))
            except Exception as e:
                bad("agent_count_per_state:crash", "agent_count_per_state(%s,%s) raised %r; live=%r" % (ty, stt, e, dict(ref.live)))
            try:
                ag = m.next_agent(ty, stt)
                if wc == 0 and ag is not None:
                    bad("next_agent", "next_agent(%s,%s) returned id %r but none exists" % (ty, stt, ag.id))
                if wc > 0 and (ag is None or ag.id not in ref.live or ref.live[ag.id] != [ty, stt]):
                    bad("next_agent", "next_agent(%s,%s) returned %r" % (ty, stt, None if ag is None else ag.id))
            except Exception as e:
                bad("crash:next_agent", repr(e))
        try:
            r = m.random_agents(ty, 2)
            if any(i not in want for i in r) or len(r) != min(2, len(want)):
                bad("random_agents", "random_agents(%s,2)=%r live=%r" % (ty, r, want))
        except Exception as e:
            bad("crash:random_agents", repr(e))


def check_case(case):
    ops = case["ops"]
    m = _mk_model()
    ref = RefReg()
    vs = []
    info = {"nontrivial": False}
    for k, op in enumerate(ops):
        try:
            what, ids, types = _apply(op, m, ref)
        except Exception as e:
            vs.append(Violation("crash:op:" + op, "op #%d %s raised %r" % (k, op, e)))
            break
        if what == "created":
            for i, ty in zip(ids, types):
                if i in ref.ever:
                    vs.append(Violation("id-reused", "op #%d %s created id %d which was used before" % (k, op, i)))
                want = ref.create(ty)
                if want != i:
                    ref.live.pop(want)
                    ref.live[i] = [ty, "active"]
                    ref.ever.add(i)
                    ref.next_id = max(ref.next_id, i + 1)
        elif what == "failed-create":
            ref.next_id = max(ref.next_id, m.next_agent_id)
        elif what == "deleted":
            ref.delete(ids)
        elif what == "configured":
            ref.clear()
            for i, ty in zip(ids, types):
                if i in ref.ever:
                    vs.append(Violation("id-reused", "configure_agents created id %d which was used before" % i))
                ref.live[i] = [ty, "active"]
                ref.ever.add(i)
                ref.next_id = max(ref.next_id, i + 1)
        elif what == "cleared":
            ref.clear()
        elif what == "state":
            for i in ids:
                ref.live[i][1] = "busy"
        if any(pos != i for pos, i in enumerate(ref.live)):
            info["nontrivial"] = True
        _queries(m, ref, vs, k, op)
        if vs:
            break
    seen = {}
    for v in vs:
        seen.setdefault(v.signature, v)
    return info, list(seen.values())


def _body(ctx):
    def body(case):
        info, vs = check_case(case)
        ops = case["ops"]
        labels = []
        if any(o.startswith("del") for o in ops):
            labels.append("has-delete")
        if "configure" in ops or "reset" in ops:
            labels.append("has-reconfigure/reset")
        ctx.case({"ops": ops}, nontrivial=info["nontrivial"], labels=labels, key=ops)
        ctx.report(vs)
    return body


def plan(tier):
    L = 4 if tier == "quick" else 5
    specs = [{"kind": "enum", "L": L, "part": i, "of": 12} for i in range(12)]
    specs += [{"kind": "random", "n": 200 if tier == "quick" else 3000} for _ in range(4)]
    specs += [{"kind": "enum-extra", "L": 3 if tier == "quick" else 4}]
    return specs


def run_shard(spec, ctx):
    body = _body(ctx)
    if spec["kind"] == "enum":
        def cases():
            k = 0
            for n in range(1, spec["L"] + 1):
                for seq in itertools.product(ALPHABET, repeat=n):
                    if k % spec["of"] == spec["part"]:
                        yield {"ops": list(seq)}
                    k += 1
        ctx.enum(cases(), body)
        ctx.exhaustive = True
    elif spec["kind"] == "enum-extra":
        def cases():
            # every sequence up to length L that contains at least one of the extra operations
            for n in range(1, spec["L"] + 1):
                for seq in itertools.product(["createA", "createB", "delFirst", "delLast", "busy"] + EXTRA, repeat=n):
                    if any(o in EXTRA for o in seq):
                        yield {"ops": list(seq)}
        ctx.enum(cases(), body)
        ctx.exhaustive = True
    else:
        strat = st.fixed_dictionaries({"ops": st.lists(st.sampled_from(ALPHABET + EXTRA), min_size=5, max_size=60)})
        ctx.hyp(strat, body, spec["n"])
