"""C17 - an instance lives exactly as long as its timeout since last access allows.

Generator: timelines (Hypothesis) of create(timeout in any unit or mix) / instance-scoped requests /
keep-alive / metrics / full-metrics / clock advances chosen around the expiry boundaries, over up
to four instances, with and without a FileAdapter.  The clock is owned by the harness
(bptkServer.datetime and externalStateAdapter.datetime are replaced in the check process).
Oracle: reference lifetime model written from the statement.
"""
import datetime as real_dt
import json
import shutil
import tempfile

from hypothesis import strategies as st

from vf.runner import Violation

ID = "C17"
LEVEL = "exploration"
TECHNIQUE = "generated timed event sequences (Hypothesis) under a harness-owned clock vs reference lifetime model; small real-time cross-check in the thorough tier"
RULE = ("cases = timelines over <= 5 instances: create (start-instance with or without a session, or a start-instances batch) with a timeout given in one unit or a mix of units (weeks .. microseconds), "
        "instance-scoped requests (run-step, session-results, begin-session, end-session, a stream that is opened and left open), keep-alive, metrics, full-metrics, and clock advances "
        "to just before / exactly at / just after an instance's expiry; with and without FileAdapter. After every event the server "
        "is compared with the reference: not-expired instances answer and are counted, instances expired at a sweep (metrics, "
        "full-metrics, creation, access to another instance) are gone, destroyed once, refused - or restored if externalised. "
        "non-trivial = two instances with different timeouts of which at least one expires while another survives; distinct by case")
ASSUMPTIONS = [
    "the clock is substituted: bptkServer.datetime / externalStateAdapter.datetime are replaced by a shim whose now() the harness controls (real timedelta)",
    "accessing an expired instance itself before any sweep is not asserted either way (statement wording); the reference then follows the server's answer",
    "expiry is at elapsed >= timeout (available while less than the timeout has elapsed)",
    "'externalised' is read off the external store (a state file for the id exists when the request arrives), not inferred from the requests made",
]

SM, SC = "smC17", "base"
UNITS = {"weeks": 7 * 24 * 3600 * 10 ** 6, "days": 24 * 3600 * 10 ** 6, "hours": 3600 * 10 ** 6, "minutes": 60 * 10 ** 6,
         "seconds": 10 ** 6, "milliseconds": 1000, "microseconds": 1}


class Clock:
    def __init__(self):
        self.t = real_dt.datetime(2030, 1, 1, 0, 0, 0)

    def advance(self, micros):
        self.t = self.t + real_dt.timedelta(microseconds=micros)


class _Shim:
    """stands in for the datetime module"""

    def __init__(self, clock):
        clk = clock

        class _DT(real_dt.datetime):
            @classmethod
            def now(cls, tz=None):
                return clk.t
        self.datetime = _DT
        self.timedelta = real_dt.timedelta
        self.date = real_dt.date


def timeout_micros(td):
    return sum(UNITS[k] * v for k, v in td.items())


def check_case(case):
    import BPTK_Py.externalstateadapter.externalStateAdapter as esa
    import BPTK_Py.server.bptkServer as srv
    from BPTK_Py import BptkServer, FileAdapter, Model, bptk

    vs = []
    info = {"nontrivial": False}
    clock = Clock()
    shim = _Shim(clock)
    old_srv, old_esa = srv.datetime, esa.datetime
    srv.datetime = shim
    esa.datetime = shim
    destroyed = {}
    made = []

    def factory():
        m = Model(starttime=1.0, stoptime=500.0, dt=1.0, name="c17")
        s = m.stock("s")
        f = m.flow("f")
        f.equation = 1.0
        s.equation = f
        b = bptk()
        b.register_model(m, scenario_manager=SM)
        orig = b.destroy
        tag = {"id": None, "n": 0}

        def destroy():
            tag["n"] += 1
            return orig()
        b.destroy = destroy
        b._vf_tag = tag
        made.append(b)
        return b
    adir = None
    adapter = None
    if case["adapter"]:
        adir = tempfile.mkdtemp(prefix="c17_", dir=".")
        adapter = FileAdapter(False, adir)
    app = BptkServer(__name__, bptk_factory=factory, external_state_adapter=adapter)
    app.logger.disabled = True
    client = app.test_client()
    im = app._instance_manager
    # reference
    ids = []  # instance ids by creation index
    last = {}
    tout = {}
    gone = set()  # confirmed gone by a sweep
    externalised = set()
    expired_any = [False]
    survived_any = [False]

    def now():
        return clock.t

    unknown = {}
    open_streams = []

    def unknown_answer(how):
        """what this server build answers for an id that never existed (asked of a separate, empty server)"""
        if how not in unknown:
            app2 = BptkServer(__name__ + "_probe", bptk_factory=lambda: bptk())
            app2.logger.disabled = True
            c2 = app2.test_client()
            path = "/0123456789abcdef0123456789abcdef/" + how
            if how == "session-results":
                r = c2.get(path)
            elif how == "begin-session":
                r = c2.post(path, json={"scenario_managers": [SM], "scenarios": [SC], "equations": ["s"]})
            else:
                r = c2.post(path)
            unknown[how] = (r.status_code, r.get_data())
            app2._bptk.destroy()
        return unknown[how]

    def is_expired(i):
        return (now() - last[i]) >= real_dt.timedelta(microseconds=tout[i])

    def sweep(reason, opno, op, exclude=None):
        """called after a sweep trigger: compare memory with the reference"""
        for i in list(last):
            if i == exclude or i in gone:
                continue
            if is_expired(i):
                gone.add(i)
                expired_any[0] = True
            else:
                survived_any[0] = True
        present = set(im._instances.keys())
        for i in last:
            if i in gone and i in present:
                vs.append(Violation("expired-still-present:%s" % reason,
                                    "op #%d %r: instance #%d (timeout %dus, idle %s) is expired but still held after %s"
                                    % (opno, op, ids.index(i), tout[i], now() - last[i], reason)))
            if i not in gone and i not in present and not (i in externalised):
                vs.append(Violation("alive-but-removed:%s" % reason,
                                    "op #%d %r: instance #%d (timeout %dus, idle %s) is not expired but was removed at %s"
                                    % (opno, op, ids.index(i), tout[i], now() - last[i], reason)))
            if i not in gone and i not in present and i in externalised:
                vs.append(Violation("alive-but-removed:%s" % reason,
                                    "op #%d %r: instance #%d (externalised, timeout %dus, idle %s) was removed from memory although not expired"
                                    % (opno, op, ids.index(i), tout[i], now() - last[i])))

    def refresh_externalised():
        """'its state was externalised' = the external store holds a state for the id (observed in the store itself)"""
        externalised.clear()
        if adir is not None:
            import os
            for i_ in ids:
                if os.path.exists(os.path.join(adir, i_ + ".json")):
                    externalised.add(i_)

    try:
        for opno, op in enumerate(case["ops"]):
            kind = op[0]
            refresh_externalised()
            if kind == "create" and len(op) > 2 and op[2] == "batch":
                # several instances from one /start-instances request; no session is begun on them
                td = op[1]
                resp = client.post("/start-instances", json={"timeout": td, "instances": op[3]})
                if resp.status_code != 200:
                    vs.append(Violation("create-failed", "op #%d: start-instances -> %d" % (opno, resp.status_code)))
                    break
                new = json.loads(resp.data)["instance_uuids"]
                if len(new) != op[3] or len(set(new)) != op[3]:
                    vs.append(Violation("create-count", "op #%d: start-instances for %d instances returned %r" % (opno, op[3], new)))
                    break
                for iid in new:
                    ids.append(iid)
                    tout[iid] = timeout_micros(td)
                    last[iid] = now()
                # the sweep ran before the batch was created
                for i in list(last):
                    if i not in new and i not in gone and is_expired(i):
                        gone.add(i)
                        expired_any[0] = True
                present = set(im._instances.keys())
                for i in last:
                    if i in gone and i in present:
                        vs.append(Violation("expired-still-present:instance-creation",
                                            "op #%d %r: instance #%d (timeout %dus, idle %s) is expired but still held after a batch creation"
                                            % (opno, op, ids.index(i), tout[i], now() - last[i])))
                    if i not in gone and i not in present and i not in externalised:
                        vs.append(Violation("alive-but-removed:instance-creation",
                                            "op #%d %r: instance #%d (timeout %dus, idle %s) is not expired but was removed at a batch creation"
                                            % (opno, op, ids.index(i), tout[i], now() - last[i])))
            elif kind == "create":
                td = op[1]
                resp = client.post("/start-instance", json={"timeout": td})
                if resp.status_code != 200:
                    vs.append(Violation("create-failed", "op #%d: start-instance -> %d" % (opno, resp.status_code)))
                    break
                iid = json.loads(resp.data)["instance_uuid"]
                ids.append(iid)
                tout[iid] = timeout_micros(td)
                last[iid] = now()
                sweep("instance-creation", opno, op, exclude=iid)
                if len(op) > 2 and op[2] == "nosession":
                    continue
                r2 = client.post("/%s/begin-session" % iid, json={"scenario_managers": [SM], "scenarios": [SC], "equations": ["s"]})
                if r2.status_code != 200 and tout[iid] > 0:
                    vs.append(Violation("fresh-instance-refused", "op #%d: begin-session on a fresh instance -> %d" % (opno, r2.status_code)))
                    break
                im._instances.get(iid, {}).get("instance", None) and setattr(im._instances[iid]["instance"], "_vf_iid", iid)
                sweep("access-to-another-instance", opno, op, exclude=iid)
            elif kind == "advance":
                # advance relative to the expiry of instance op[1] (mode op[2]) or by an absolute amount
                if op[1] is None or not ids:
                    clock.advance(op[3])
                else:
                    i = ids[op[1] % len(ids)]
                    remaining = tout[i] - int((now() - last[i]) / real_dt.timedelta(microseconds=1))
                    delta = {"before": remaining - op[3], "at": remaining, "after": remaining + op[3]}[op[2]]
                    clock.advance(max(0, delta))
            elif kind in ("metrics", "full-metrics"):
                resp = client.get("/" + kind)
                if resp.status_code != 200:
                    vs.append(Violation("metrics-failed", "GET /%s -> %d" % (kind, resp.status_code)))
                    break
                sweep(kind, opno, op)
                expect = sum(1 for i in last if i not in gone and i in im._instances)
                alive_ref = sum(1 for i in last if i not in gone and not (i in externalised and i not in im._instances))
                if kind == "full-metrics":
                    data = json.loads(resp.data)
                    if data["instanceCount"] != alive_ref:
                        vs.append(Violation("metrics-count", "op #%d: full-metrics instanceCount=%r, reference says %d alive" % (opno, data["instanceCount"], alive_ref)))
                    for i in gone:
                        if i in data:
                            vs.append(Violation("metrics-lists-expired", "op #%d: full-metrics lists expired instance #%d" % (opno, ids.index(i))))
                else:
                    txt = resp.data.decode()
                    if ("bptk_instance_count %d\n" % alive_ref) not in txt:
                        vs.append(Violation("metrics-count", "op #%d: metrics text %r, reference says %d alive" % (opno, txt[-80:], alive_ref)))
            elif kind == "access":
                if not ids:
                    continue
                i = ids[op[1] % len(ids)]
                how = op[2]
                was_gone = i in gone
                was_expired = is_expired(i)
                if how == "keep-alive":
                    resp = client.post("/%s/keep-alive" % i)
                elif how == "run-step":
                    resp = client.post("/%s/run-step" % i)
                elif how == "session-results":
                    resp = client.get("/%s/session-results" % i)
                elif how == "end-session":
                    resp = client.post("/%s/end-session" % i)
                elif how == "open-stream":
                    # a client that opens a stream, reads the first chunks and then stalls: the session lock stays taken
                    resp = client.post("/%s/stream-steps" % i, buffered=False)
                    if resp.status_code == 200:
                        try:
                            it = iter(resp.response)
                            for _ in range(3):
                                next(it)
                        except StopIteration:
                            pass
                        open_streams.append(resp)
                else:
                    resp = client.post("/%s/begin-session" % i, json={"scenario_managers": [SM], "scenarios": [SC], "equations": ["s"]})
                # served = anything but the answer an unknown id gets (an instance without a session answers run-step with an
                # error of its own, which is still an access)
                if how == "open-stream":
                    ok = resp.status_code == 200 or (resp.status_code, resp.get_data()) != unknown_answer("stream-steps")
                else:
                    ok = (resp.status_code, resp.get_data()) != unknown_answer(how)
                if not was_gone and not was_expired:
                    if not ok:
                        vs.append(Violation("alive-refused:" + how, "op #%d %r: instance #%d (timeout %dus, idle %s) is alive but %s -> %d %r"
                                            % (opno, op, ids.index(i), tout[i], now() - last[i], how, resp.status_code, resp.data[:100])))
                        break
                    last[i] = now()
                elif was_gone:
                    restorable = i in externalised and how != "keep-alive"
                    if restorable:
                        if not ok:
                            vs.append(Violation("externalised-not-restored:" + how, "op #%d %r: expired instance #%d has external state but %s -> %d"
                                                % (opno, op, ids.index(i), how, resp.status_code)))
                            break
                        gone.discard(i)
                        last[i] = now()
                    else:
                        if ok:
                            vs.append(Violation("expired-id-served:" + how, "op #%d %r: instance #%d expired and was swept, but %s -> 200"
                                                % (opno, op, ids.index(i), how)))
                            break
                else:
                    # expired but not yet swept: either outcome allowed; follow the server
                    if ok:
                        last[i] = now()
                    else:
                        gone.add(i)
                refresh_externalised()
                if ok:
                    # only a request that reached an existing instance is an 'access to another instance'
                    sweep("access-to-another-instance", opno, op, exclude=i)
            if vs:
                break
        # resources released exactly once for every instance the server dropped
        if not vs:
            for b in made[1:]:  # made[0] is the server-wide bptk
                n = b._vf_tag["n"]
                held = any(rec["instance"] is b for rec in im._instances.values())
                if not held and n != 1:
                    vs.append(Violation("destroy-count:%d" % n, "a dropped instance had destroy() called %d times" % n))
                    break
                if held and n != 0:
                    vs.append(Violation("destroyed-while-held", "a held instance had destroy() called %d times" % n))
                    break
    finally:
        for r_ in open_streams:
            try:
                r_.close()
            except Exception:
                pass
        srv.datetime, esa.datetime = old_srv, old_esa
        for b in made:
            try:
                b.destroy()
            except Exception:
                pass
        if adir:
            shutil.rmtree(adir, ignore_errors=True)
    info["nontrivial"] = expired_any[0] and survived_any[0] and len(set(tout.values())) >= 2
    out = {}
    for v in vs:
        out.setdefault(v.signature, v)
    return info, list(out.values())


def timeout_strategy():
    one = st.sampled_from(list(UNITS)).flatmap(lambda u: st.integers(1, {"weeks": 2, "days": 3, "hours": 30, "minutes": 90, "seconds": 120,
                                                                       "milliseconds": 5000, "microseconds": 900000}[u]).map(lambda v: {u: v}))
    mix = st.dictionaries(st.sampled_from(list(UNITS)), st.integers(0, 5), min_size=2, max_size=4).filter(lambda d: sum(d.values()) > 0)
    return st.one_of(one, one, mix)


def case_strategy():
    @st.composite
    def build(draw):
        first = draw(st.sampled_from(["session", "session", "nosession", "batch"]))
        ops = [["create", draw(timeout_strategy()), "batch", 2] if first == "batch" else ["create", draw(timeout_strategy()), first]]
        ncreated = 2 if first == "batch" else 1
        for _ in range(draw(st.integers(3, 14))):
            k = draw(st.sampled_from(["create", "advance", "advance", "advance", "access", "access", "metrics", "full-metrics"]))
            if k == "create":
                if ncreated < 4:
                    mode = draw(st.sampled_from(["session", "session", "nosession", "batch"]))
                    if mode == "batch":
                        cnt = draw(st.integers(1, min(2, 5 - ncreated)))
                        ops.append(["create", draw(timeout_strategy()), "batch", cnt])
                        ncreated += cnt
                    else:
                        ops.append(["create", draw(timeout_strategy()), mode])
                        ncreated += 1
            elif k == "advance":
                mode = draw(st.sampled_from(["before", "at", "after", "abs"]))
                eps = draw(st.sampled_from([1, 1000, 10 ** 6, 60 * 10 ** 6]))
                if mode == "abs":
                    ops.append(["advance", None, None, draw(st.sampled_from([1, 500, 10 ** 6, 3600 * 10 ** 6, 24 * 3600 * 10 ** 6]))])
                else:
                    ops.append(["advance", draw(st.integers(0, 3)), mode, eps])
            elif k == "access":
                ops.append(["access", draw(st.integers(0, 3)), draw(st.sampled_from(["keep-alive", "run-step", "session-results", "begin-session", "run-step", "end-session", "open-stream"]))])
            else:
                ops.append([k])
        return {"adapter": draw(st.booleans()), "ops": ops}
    return build()


def _body(ctx):
    def body(case):
        info, vs = check_case(case)
        ctx.case(case, nontrivial=info["nontrivial"], labels=["adapter:%s" % case["adapter"]] + sorted(set("op:" + o[0] for o in case["ops"])) +
                 sorted(set("create:" + (o[2] if len(o) > 2 else "session") for o in case["ops"] if o[0] == "create")) +
                 sorted(set("access:" + o[2] for o in case["ops"] if o[0] == "access")), key=case)
        ctx.report(vs)
    return body


def realtime_crosscheck(ctx):
    """thorough tier only: a few timelines with the real clock; inconclusive near boundaries"""
    import time

    from BPTK_Py import BptkServer, Model, bptk

    def factory():
        m = Model(starttime=1.0, stoptime=50.0, dt=1.0, name="c17rt")
        s = m.stock("s")
        f = m.flow("f")
        f.equation = 1.0
        s.equation = f
        b = bptk()
        b.register_model(m, scenario_manager=SM)
        return b
    for sleep_ms, expect_alive in ((100, True), (600, False), (100, True), (600, False)):
        app = BptkServer(__name__, bptk_factory=factory)
        c = app.test_client()
        t0 = time.monotonic()
        iid = json.loads(c.post("/start-instance", json={"timeout": {"milliseconds": 300}}).data)["instance_uuid"]
        time.sleep(sleep_ms / 1000.0)
        c.get("/full-metrics")
        elapsed = (time.monotonic() - t0) * 1000
        present = iid in app._instance_manager._instances
        if abs(elapsed - 300) < 100:
            ctx.labels["realtime:inconclusive"] += 1
            continue
        ctx.labels["realtime:checked"] += 1
        if present != (elapsed < 300):
            ctx.add_violation(Violation("realtime:%s" % ("kept" if present else "dropped"),
                                        "real clock: instance with 300 ms timeout %s after %.0f ms" % ("still present" if present else "removed", elapsed),
                                        case={"realtime": sleep_ms}))


def plan(tier):
    n = 300 if tier == "quick" else 3000
    specs = [{"n": n} for _ in range(16)]
    if tier == "thorough":
        specs.append({"realtime": True})
    return specs


def run_shard(spec, ctx):
    if spec.get("realtime"):
        realtime_crosscheck(ctx)
        return
    ctx.hyp(case_strategy(), _body(ctx), spec["n"])
