"""C05 - the simulated time grid is exact: no drift, gaps or duplicates for any dt.

Generator: complete lattice start x dt x n (bounded-exhaustive) + random decimal (start, dt, n).
Oracle: the decimal grid start + i*dt computed in decimal.Decimal, i = 0..n.
Observed at: util.timerange (inclusive and exclusive), Element.plot(return_df=True),
bptk.run_scenarios (df / dict / json), a stepwise session (run_step until 'Stoptime reached',
session_results) and direct evaluation at times computed by different float routes.
"""
import json
from decimal import Decimal

from hypothesis import strategies as st

from vf.runner import Violation

ID = "C05"
LEVEL = "exploration"
TECHNIQUE = "bounded-exhaustive lattice of (start, dt, n) + random decimals (Hypothesis) vs decimal reference grid"
RULE = ("cases = (start, dt, n) triples, stop = start + n*dt in Decimal; full lattice of 9 starts x 12 dts x n in 0..N "
        "plus Hypothesis-drawn decimals with <= 3 fractional digits; stocks with inline step/time rates, a session that halves dt after a batch run; every reported index/key list must equal the decimal "
        "grid exactly (length, order, float equality with the decimal literal). non-trivial = dt not exactly "
        "representable in binary and n >= 3 (float drift possible); distinct by triple")
ASSUMPTIONS = [
    "magnitudes < 1e4 with <= 4 fractional digits (floating_point.precision_and_scale documents a 14 digit cap)",
    "a session is started with the scenario's own start time and dt (begin_session takes them as parameters)",
    "grid labels are compared as floats with == against float(str(decimal value))",
]
EXHAUSTIVE_SCOPE = "lattice starts x dts x n for timerange / plot / batch run (sessions: n <= 30 in the quick tier)"

STARTS = ["0", "1", "0.5", "0.1", "2.5", "10", "99.9", "-1", "-0.5"]
DTS = ["1", "0.5", "0.25", "0.125", "0.1", "0.2", "0.05", "0.01", "0.3", "0.7", "2", "2.5"]


def ref_grid(start, dt, n):
    s, d = Decimal(start), Decimal(dt)
    return [float(str(s + i * d)) for i in range(n + 1)]


def _binary_exact(x):
    d = Decimal(x)
    return Decimal(float(str(d))) == d


def _cmp(name, got, want, vs, case):
    got = list(got)
    if len(got) != len(want) or any(a != b for a, b in zip(got, want)):
        # first differing position
        pos = next((i for i, (a, b) in enumerate(zip(got, want)) if a != b), min(len(got), len(want)))
        kind = "length" if (pos >= min(len(got), len(want))) else "label"
        vs.append(Violation("%s:%s" % (name, kind),
                            "%s for start=%s dt=%s n=%s: got %d entries, expected %d; first difference at index %d: got %r expected %r; tail got %r expected %r"
                            % (name, case["start"], case["dt"], case["n"], len(got), len(want), pos,
                               got[pos] if pos < len(got) else None, want[pos] if pos < len(want) else None,
                               got[-3:], want[-3:])))
        return False
    return True


def check_case(case):
    from BPTK_Py import Model, bptk
    from BPTK_Py import sd_functions as sd
    from BPTK_Py.util import timerange

    start_s, dt_s, n = case["start"], case["dt"], case["n"]
    parts = case.get("parts", ["timerange", "plot", "batch", "session", "routes", "inline", "regrid"])
    grid = ref_grid(start_s, dt_s, n)
    start, dt, stop = grid[0], float(dt_s), grid[-1]
    vs = []
    info = {}

    if "timerange" in parts:
        _cmp("timerange-inclusive", timerange(start, stop, dt, exclusive=False), grid, vs, case)
        _cmp("timerange-exclusive", timerange(start, stop, dt), grid[:-1], vs, case)

    def build():
        m = Model(starttime=start, stoptime=stop, dt=dt, name="g")
        s = m.stock("s")
        f = m.flow("f")
        c = m.converter("c")
        s.initial_value = 1.0
        f.equation = 2.0
        s.equation = f
        c.equation = sd.time()
        return m, s, c

    if "plot" in parts:
        m, s, c = build()
        for el in (c, s):
            df = el.plot(return_df=True)
            _cmp("plot-index", [float(x) for x in df.index], grid, vs, case)
        # the converter holds time(): values must be the labels
        _cmp("plot-time-values", [float(x) for x in c.plot(return_df=True)["c"]], grid, vs, case)
        # explicit sub-range of the grid
        if n >= 3:
            a, b_ = 1, n - 1
            m2, s2, c2 = build()
            df = c2.plot(starttime=grid[a], stoptime=grid[b_], return_df=True)
            _cmp("plot-subrange-index", [float(x) for x in df.index], grid[a:b_ + 1], vs, case)
            _cmp("plot-subrange-values", [float(x) for x in df["c"]], grid[a:b_ + 1], vs, case)
            df = s2.plot(starttime=grid[a], stoptime=grid[b_], return_df=True)
            want = [1.0 + 2.0 * dt * i for i in range(a, b_ + 1)]
            got = [float(x) for x in df["s"]]
            if len(got) != len(want) or any(abs(g - w) > 1e-9 * max(1, abs(w)) for g, w in zip(got, want)):
                vs.append(Violation("plot-subrange-stock", "stock plotted on %r..%r gives %r expected %r" % (grid[a], grid[b_], got[-3:], want[-3:])))

    if "batch" in parts or "session" in parts:
        b = bptk()
        try:
            m, s, c = build()
            b.register_model(m, scenario_manager="smG")
            if "batch" in parts:
                df = b.run_scenarios(scenarios=["base"], scenario_managers=["smG"], equations=["s", "c"], return_format="df")
                _cmp("batch-df-index", [float(x) for x in df.index], grid, vs, case)
                d = b.run_scenarios(scenarios=["base"], scenario_managers=["smG"], equations=["s", "c"], return_format="dict")
                _cmp("batch-dict-keys", [float(x) for x in d["smG"]["base"]["equations"]["c"].index], grid, vs, case)
                js = json.loads(b.run_scenarios(scenarios=["base"], scenario_managers=["smG"], equations=["s", "c"], return_format="json"))
                _cmp("batch-json-keys", [float(x) for x in js["smG"]["base"]["equations"]["c"].keys()], grid, vs, case)
                _cmp("batch-time-values", [float(x) for x in df["c"]], grid, vs, case)
                # stock: exactly one Euler step per label
                want_s = [1.0 + 2.0 * dt * i for i in range(n + 1)]
                got_s = [float(x) for x in df["s"]]
                if len(got_s) == len(want_s) and any(abs(a - w) > 1e-9 * max(1, abs(w)) for a, w in zip(got_s, want_s)):
                    vs.append(Violation("batch-stock-steps", "stock values %r expected %r" % (got_s[-3:], want_s[-3:])))
            if "session" in parts:
                b.begin_session(scenarios=["base"], scenario_managers=["smG"], equations=["s", "c"], starttime=start, dt=dt)
                keys = []
                vals = []
                for _ in range(n + 5):
                    r = b.run_step()
                    if r is None or "msg" in r:
                        break
                    kk = list(r["smG"]["base"]["c"].keys())
                    keys.extend(float(x) for x in kk)
                    vals.extend(float(x) for x in r["smG"]["base"]["c"].values())
                _cmp("session-step-keys", keys, grid, vs, case)
                _cmp("session-results-keys", [float(x) for x in b.session_results().keys()], grid, vs, case)
                if len(vals) == len(grid):
                    _cmp("session-time-values", vals, grid, vs, case)
                b.end_session()
        finally:
            b.destroy()

    if "inline" in parts and n >= 3:
        # stocks whose rate is written inline with time-dependent operators: the rate of interval i is taken at grid point i
        m, s, c = build()
        k = n // 2
        w = m.stock("w")
        w.initial_value = 0.0
        w.equation = sd.step(1.0, grid[k])
        u = m.stock("u")
        u.initial_value = 0.0
        u.equation = sd.time()
        got_w = [float(x) for x in w.plot(return_df=True)["w"]]
        got_u = [float(x) for x in u.plot(return_df=True)["u"]]
        want_w = [dt * max(0, i - 1 - k) for i in range(n + 1)]
        want_u, acc = [], 0.0
        for i in range(n + 1):
            want_u.append(acc)
            acc += dt * grid[i]
        for nm, got, want in (("step", got_w, want_w), ("time", got_u, want_u)):
            if len(got) != len(want) or any(abs(g - w_) > 1e-9 * max(1.0, abs(w_)) for g, w_ in zip(got, want)):
                pos = next((i for i, (g, w_) in enumerate(zip(got, want)) if abs(g - w_) > 1e-9 * max(1.0, abs(w_))), min(len(got), len(want)))
                vs.append(Violation("inline-rate:" + nm, "start=%s dt=%s n=%d: stock with inline %s%s is %r at %r (index %d), one Euler step per grid interval gives %r"
                                    % (start_s, dt_s, n, nm, "(1, %r)" % grid[k] if nm == "step" else "()", got[pos] if pos < len(got) else None,
                                       grid[pos] if pos < len(grid) else None, pos, want[pos] if pos < len(want) else None)))

    if "regrid" in parts and 1 <= n <= 40:
        # the scenario is simulated on its grid, then a session brings a finer dt as settings: the new grid must be exact as well
        d2 = Decimal(dt_s) / 2
        grid2 = [float(str(Decimal(start_s) + i * d2)) for i in range(2 * n + 1)]
        b = bptk()
        try:
            m, s, c = build()
            b.register_model(m, scenario_manager="smG")
            b.run_scenarios(scenarios=["base"], scenario_managers=["smG"], equations=["s", "c"], return_format="df")
            b.begin_session(scenarios=["base"], scenario_managers=["smG"], equations=["s", "c"],
                            settings={"smG": {"base": {"runspecs": {"dt": float(str(d2))}}}})
            keys, vals, svals = [], [], []
            for _ in range(2 * n + 5):
                r = b.run_step()
                if r is None or "msg" in r:
                    break
                keys.extend(float(x) for x in r["smG"]["base"]["c"].keys())
                vals.extend(float(x) for x in r["smG"]["base"]["c"].values())
                svals.extend(float(x) for x in r["smG"]["base"]["s"].values())
            b.end_session()
            if _cmp("regrid-session-keys", keys, grid2, vs, case):
                _cmp("regrid-time-values", vals, grid2, vs, case)
                want_s = [1.0 + 2.0 * float(str(d2)) * i for i in range(2 * n + 1)]
                if len(svals) == len(want_s) and any(abs(a - w_) > 1e-9 * max(1, abs(w_)) for a, w_ in zip(svals, want_s)):
                    vs.append(Violation("regrid-stock-steps", "after dt %s -> %s the stock values are %r expected %r" % (dt_s, d2, svals[:4], want_s[:4])))
        finally:
            b.destroy()

    if "routes" in parts:
        m, s, c = build()
        acc = start
        accs = [acc]
        for i in range(n):
            acc = acc + dt
            accs.append(acc)
        for i in range(n + 1):
            routes = {"mul": start + i * dt, "add": accs[i], "back": stop - (n - i) * dt}
            want_c, want_s = c(grid[i]), s(grid[i])
            for rn, t in routes.items():
                for el, want, en in ((c, want_c, "converter"), (s, want_s, "stock")):
                    got = el(t)
                    if got != want:
                        vs.append(Violation("route:%s:%s" % (en, rn),
                                            "start=%s dt=%s: %s evaluated at %r (route %s to grid point %r) gives %r, at the label %r"
                                            % (start_s, dt_s, en, t, rn, grid[i], got, want)))
                        break
            if vs and vs[-1].signature.startswith("route"):
                break
        info["routes"] = 3 * (n + 1)
    # de-duplicate by signature
    seen = {}
    for v in vs:
        seen.setdefault(v.signature, v)
    return info, list(seen.values())


def _body(ctx):
    def body(case):
        info, vs = check_case(case)
        nt = (not _binary_exact(case["dt"])) and case["n"] >= 3
        labels = ["dt-binary" if _binary_exact(case["dt"]) else "dt-decimal"]
        if "session" in case.get("parts", ["session"]):
            labels.append("with-session")
        ctx.case({"start": case["start"], "dt": case["dt"], "n": case["n"], "parts": case.get("parts", "all"),
                  "grid_tail": ref_grid(case["start"], case["dt"], case["n"])[-3:]},
                 nontrivial=nt, labels=labels, key=[case["start"], case["dt"], case["n"]])
        ctx.report(vs)
    return body


def dec_strategy(lo, hi, digits):
    return st.integers(int(lo * 10 ** digits), int(hi * 10 ** digits)).map(
        lambda k: str(Decimal(k) / (10 ** digits)).rstrip("0").rstrip(".") if "." in str(Decimal(k) / (10 ** digits)) else str(Decimal(k) / (10 ** digits)))


def case_strategy(max_n):
    def norm(s):
        return s if s not in ("", "-0") else "0"
    return st.fixed_dictionaries({
        "start": dec_strategy(-50, 200, 3).map(norm),
        "dt": st.one_of(dec_strategy(0.001, 5, 3), st.sampled_from(DTS)).filter(lambda x: Decimal(x) > 0),
        "n": st.integers(0, max_n),
    })


def plan(tier):
    nmax = 60 if tier == "quick" else 120
    smax = 30 if tier == "quick" else 120
    specs = []
    for i in range(12):
        specs.append({"kind": "lattice", "dt": DTS[i], "nmax": nmax, "smax": smax})
    for i in range(4):
        specs.append({"kind": "random", "n": 150 if tier == "quick" else 3000, "max_n": 40 if tier == "quick" else 150})
    return specs


def run_shard(spec, ctx):
    body = _body(ctx)
    if spec["kind"] == "lattice":
        def cases():
            for start in STARTS:
                for n in range(0, spec["nmax"] + 1):
                    parts = ["timerange", "plot", "batch", "routes", "inline"]
                    if n <= spec["smax"]:
                        parts.append("session")
                    if n <= 12 or n % 7 == 0:
                        parts.append("regrid")
                    yield {"start": start, "dt": spec["dt"], "n": n, "parts": parts}
        ctx.enum(cases(), body)
        ctx.exhaustive = True
    else:
        ctx.hyp(case_strategy(spec["max_n"]), body, spec["n"])
