"""C09 - every way of obtaining results reports the same numbers on the same grid.

Generator: DSL stock/flow model x run spec x requested-equation subset/order x a partition of the
run into run-step / run-steps k / stream-steps calls x per-call settings (none, {}, constants,
points), through the Python API and through the REST endpoints (Flask test client).
Oracle: (1) without settings all channels agree with each other and with the Euler reference on
the decimal grid start..stop; (2) with settings: the reference with a piecewise-constant schedule -
a setting delivered with the step at grid index k is in force for indices >= k and none before.
"""
import json

from hypothesis import strategies as st

from vf import expr as E
from vf import sdmodel as SM
from vf.props import c04
from vf.runner import Violation

ID = "C09"
LEVEL = "exploration"
TECHNIQUE = "generated models, call partitions and per-step settings (Hypothesis); differential across batch / session / REST channels and vs Euler reference with a settings schedule"
RULE = ("cases = (stock/flow model with graphical function, run spec, requested equations [subset, order], partition of the run into "
        "run-step / run-steps k / stream-steps calls, per-call settings in {none, {}, constants, points}, flat or nested results, sessions over two scenarios with settings addressed to one (equal stop times, or the sibling stopping later), starts -8..2.5 incl. stop <= 0); "
        "channels: run_scenarios df/dict/json, REST run again with runspecs dt/2 and back (after the memo is full), Python session + session_results (by time / by equation / flat), REST run, run-step, "
        "run-steps, stream-steps, session-results, flat-session-results. non-trivial = the partition has >= 2 calls of different kinds "
        "or a setting at a step k >= 1, and dt != 1 or start != 1; distinct by case")
ASSUMPTIONS = [
    "JSON turns float keys into strings: keys are compared after float()",
    "run-steps applies its one settings dictionary at every step of the call (as the handler does)",
    "a Python session is started without explicit start/dt (defaults to the scenario's run specs)",
    "steps requested beyond the stop time yield 'Stoptime reached' messages, which are not results",
    "graphical functions are only looked up inside flows/converters (elements with their own memo), not inline in a stock equation",
]


def _schedule(case):
    """grid index -> settings, following the partition"""
    sched = []
    k = 0
    n = _abstract(case)["n"]
    for call in case["calls"]:
        kind = call[0]
        st_ = call[-1]
        if kind == "step":
            cnt = 1
        elif kind == "steps":
            cnt = call[1]
        else:
            cnt = n + 1 - k
        for j in range(cnt):
            if k + j <= n and st_:
                sched.append((k + j, st_))
        k += cnt
        if k > n:
            break
    return sched


def _abstract(case):
    return case["model"] if case.get("model_kind") == "sd" else c04.to_abstract(case["model"])


def _halve_dt(abstract):
    """the same model on dt/2: numeric delay durations are stored in units of dt and keep their length in time"""
    import copy
    from decimal import Decimal

    def walk(t):
        if isinstance(t, list):
            if t and t[0] == "delay" and not isinstance(t[2], list):
                return ["delay", t[1], 2 * t[2], walk(t[3])]
            return [walk(x) for x in t]
        if isinstance(t, dict):
            return {k: walk(v) for k, v in t.items()}
        return t
    a = walk(copy.deepcopy(abstract))
    a["dt"], a["n"] = str(Decimal(abstract["dt"]) / 2), 2 * abstract["n"]
    return a


def _flatten_step(res, sm, sc):
    """{eq: {t: v}} or flat {eq: v}"""
    return res[sm][sc]


class _Shape(Exception):
    pass


def _single(cell, eq):
    """a step result holds exactly one (time, value) pair per equation"""
    items = list(cell.items())
    if len(items) != 1:
        raise _Shape("the result of one step holds %d entries for %s: %r" % (len(items), eq, dict(items)))
    return items[0]


def check_case(case):
    try:
        return _check_case(case)
    except _Shape as e:
        return {"status": "ok"}, [Violation("step-result-shape", "%s; calls %r model %r" % (e, case["calls"], SM.sym_show(_abstract(case))))]


def _check_case(case):
    from BPTK_Py import BptkServer, bptk

    info = {"status": "ok"}
    vs = []
    abstract = _abstract(case)
    names_all = SM.element_names(abstract)
    eqs = [names_all[i % len(names_all)] for i in case["eqs"]]
    eqs = list(dict.fromkeys(eqs))
    grid = SM.grid(abstract)
    n = abstract["n"]
    sm, sc = "smC09", "base"
    sched = _schedule(case)
    try:
        ref0 = SM.RefModel(abstract, limit=1e9).run()
        ref1 = SM.RefModel(abstract, schedule=[(k, s) for k, s in sched], limit=1e9).run() if sched else ref0
    except E.Fragile:
        info["status"] = "fragile"
        return info, vs
    scale = max(SM.model_scale(ref0), SM.model_scale(ref1))

    def factory():
        model, _ = SM.build_dsl(abstract, name="c09")
        bb = bptk()
        bb.register_model(model, scenario_manager=sm)
        return bb

    def cmp_series(what, times, vals, ref, eq):
        if [float(t) for t in times] != grid[:len(times)] or (what.endswith(":full") and len(times) != len(grid)):
            vs.append(Violation("grid:" + what.split(":full")[0], "%s: %s reported on times %r (%d), expected grid %r (%d)"
                                % (what, eq, [float(t) for t in times][-3:], len(times), grid[-3:], len(grid))))
            return False
        for i, g in enumerate(vals):
            if not SM.values_agree(g, ref[eq][i], scale, n):
                before = [k for k, s in sched if k > i]
                kind = "settings-leak-backwards" if (before and SM.values_agree(ref0[eq][i], ref[eq][i], scale, n) is not None and any(k > i for k, _ in sched)
                                                    and all(k > i for k, _ in sched)) else ("with-settings" if sched else "no-settings")
                vs.append(Violation("value:%s:%s" % (what.split(":full")[0], kind),
                                    "%s: %s(%r)=%r expected %r (index %d; settings schedule %r; requested equations %r; calls %r); model %r"
                                    % (what, eq, grid[i], g, ref[eq][i], i, sched, eqs, case["calls"], SM.sym_show(abstract))))
                return False
        return True

    b = factory()
    try:
        # ---- batch formats (no settings) ----------------------------------
        df = b.run_scenarios(scenarios=[sc], scenario_managers=[sm], equations=eqs, return_format="df")
        d = b.run_scenarios(scenarios=[sc], scenario_managers=[sm], equations=eqs, return_format="dict")
        js = json.loads(b.run_scenarios(scenarios=[sc], scenario_managers=[sm], equations=eqs, return_format="json"))
        for eq in eqs:
            ok = cmp_series("batch-df:full", list(df.index), [float(x) for x in df[eq]], ref0, eq) and \
                cmp_series("batch-dict:full", list(d[sm][sc]["equations"][eq].index), [float(x) for x in d[sm][sc]["equations"][eq]], ref0, eq) and \
                cmp_series("batch-json:full", list(js[sm][sc]["equations"][eq].keys()), list(js[sm][sc]["equations"][eq].values()), ref0, eq)
            if not ok:
                return info, vs
        # ---- python session -------------------------------------------------
        # no manual cache reset here: begin_session documents that it resets the cache of the scenarios of the session
        b.begin_session(scenarios=[sc], scenario_managers=[sm], equations=eqs)
        got = {eq: ([], []) for eq in eqs}
        k = 0
        done = False
        for call in case["calls"]:
            cnt = 1 if call[0] == "step" else (call[1] if call[0] == "steps" else n + 1 - k)
            for j in range(cnt):
                r = b.run_step(settings={sm: {sc: call[-1]}} if call[-1] is not None else None, flat=False)
                if r is None or "msg" in r:
                    done = True
                    break
                for eq in eqs:
                    t, v = _single(r[sm][sc][eq], eq)
                    got[eq][0].append(t)
                    got[eq][1].append(float(v))
                k += 1
            if done:
                break
        # finish the run without settings
        while not done and k <= n + 2:
            r = b.run_step()
            if r is None or "msg" in r:
                break
            for eq in eqs:
                t, v = _single(r[sm][sc][eq], eq)
                got[eq][0].append(t)
                got[eq][1].append(float(v))
            k += 1
        for eq in eqs:
            if not cmp_series("py-session:full", got[eq][0], got[eq][1], ref1, eq):
                return info, vs
        by_time = b.session_results()
        by_eq = b.session_results(index_by_time=False)
        flat = b.session_results(index_by_time=False, flat=True)
        for eq in eqs:
            ok = cmp_series("py-session-results-by-time:full", list(by_time.keys()), [float(by_time[t][sm][sc][eq][t]) for t in by_time], ref1, eq) and \
                cmp_series("py-session-results-by-eq:full", list(by_eq[sm][sc]["equations"][eq].keys()), [float(x) for x in by_eq[sm][sc]["equations"][eq].values()], ref1, eq) and \
                cmp_series("py-session-results-flat:full", grid[:len(flat[sm][sc]["equations"][eq])], [float(x) for x in flat[sm][sc]["equations"][eq]], ref1, eq)
            if not ok:
                return info, vs
        b.end_session()
    finally:
        b.destroy()
    # ---- python session over two scenarios of the manager: settings are addressed to one of them -------------
    if case.get("sibling"):
        k0 = abstract["constants"][0]["name"]
        other_consts = {k0: 4.0}
        try:
            # a sibling that stops later has its own stoptime(); only the first n+1 grid points are reported
            abs_other = dict(abstract, n=n + 2) if case.get("sibling_stop") == "longer" else abstract
            ref_other = SM.RefModel(abs_other, constants=other_consts, limit=1e9).run()
        except E.Fragile:
            ref_other = None
        if ref_other is not None:
            scale = max(scale, SM.model_scale(ref_other))
            model, _ = SM.build_dsl(abstract, name="c09")
            b = bptk()
            try:
                b.register_scenario_manager({sm: {"model": model}})
                other_def = {"constants": dict(other_consts)}
                if case.get("sibling_stop") == "longer":
                    # the sibling runs longer: the session ends at the earlier stop time (the addressed scenario's own grid)
                    from decimal import Decimal
                    other_def["runspecs"] = {"stoptime": float(Decimal(abstract["start"]) + (n + 2) * Decimal(abstract["dt"]))}
                scen = [("other", other_def), (sc, {})]
                if case["sibling"] == "after":
                    scen.reverse()
                b.register_scenarios(dict(scen), sm)
                b.begin_session(scenarios=[sc, "other"], scenario_managers=[sm], equations=eqs)
                got = {s_: {eq: ([], []) for eq in eqs} for s_ in (sc, "other")}
                k = 0
                sched_map = dict(sched)
                while k <= n + 2:
                    st_ = sched_map.get(k)
                    r = b.run_step(settings={sm: {sc: st_}} if st_ else None)
                    if r is None or "msg" in r:
                        break
                    for s_ in (sc, "other"):
                        for eq in eqs:
                            t, v = _single(r[sm][s_][eq], eq)
                            got[s_][eq][0].append(t)
                            got[s_][eq][1].append(float(v))
                    k += 1
                b.end_session()
                for eq in eqs:
                    if not (cmp_series("py-session-2scenarios:addressed:full", got[sc][eq][0], got[sc][eq][1], ref1, eq) and
                            cmp_series("py-session-2scenarios:sibling:full", got["other"][eq][0], got["other"][eq][1], ref_other, eq)):
                        return info, vs
            finally:
                b.destroy()
    # ---- REST ---------------------------------------------------------------
    made = []

    def factory2():
        bb = factory()
        made.append(bb)
        return bb
    app = BptkServer(__name__, bptk_factory=factory2)
    client = app.test_client()
    try:
        resp = client.post("/run", json={"scenario_managers": [sm], "scenarios": [sc], "equations": eqs})
        if resp.status_code != 200:
            vs.append(Violation("rest-status:run", "POST /run -> %d %r" % (resp.status_code, resp.data[:200])))
            return info, vs
        js = json.loads(resp.data)
        for eq in eqs:
            if not cmp_series("rest-run:full", list(js[sm][sc]["equations"][eq].keys()), list(js[sm][sc]["equations"][eq].values()), ref0, eq):
                return info, vs
        # the same scenario again on a finer grid: only the run specs change, after a run that filled every memo
        from decimal import Decimal
        dt2 = Decimal(abstract["dt"]) / 2
        abs2 = _halve_dt(abstract)
        try:
            ref2 = SM.RefModel(abs2, limit=1e9).run()
        except E.Fragile:
            ref2 = None
        if ref2 is not None:
            grid2 = SM.grid(abs2)
            scale2 = max(scale, SM.model_scale(ref2))
            resp = client.post("/run", json={"scenario_managers": [sm], "scenarios": [sc], "equations": eqs,
                                             "settings": {sm: {sc: {"runspecs": {"dt": float(dt2)}}}}})
            if resp.status_code != 200:
                vs.append(Violation("rest-status:run-regrid", "POST /run with runspecs dt=%s -> %d %r" % (dt2, resp.status_code, resp.data[:200])))
                return info, vs
            js = json.loads(resp.data)
            for eq in eqs:
                ser = js[sm][sc]["equations"][eq]
                if [float(t) for t in ser.keys()] != grid2:
                    vs.append(Violation("grid:rest-run-regrid", "POST /run with runspecs dt=%s after a run with dt=%s: %s reported on %d times ending %r, expected %d ending %r"
                                        % (dt2, abstract["dt"], eq, len(ser), list(ser.keys())[-3:], len(grid2), grid2[-3:])))
                    return info, vs
                for i, g in enumerate(ser.values()):
                    if not SM.values_agree(float(g), ref2[eq][i], scale2, 2 * n):
                        vs.append(Violation("value:rest-run-regrid", "POST /run with runspecs dt=%s after a run with dt=%s: %s(%r)=%r expected %r; model %r"
                                            % (dt2, abstract["dt"], eq, grid2[i], g, ref2[eq][i], SM.sym_show(abstract))))
                        return info, vs
            # and back: the coarse grid again
            resp = client.post("/run", json={"scenario_managers": [sm], "scenarios": [sc], "equations": eqs,
                                             "settings": {sm: {sc: {"runspecs": {"dt": float(abstract["dt"])}}}}})
            if resp.status_code == 200:
                js = json.loads(resp.data)
                for eq in eqs:
                    if not cmp_series("rest-run-regrid-back:full", list(js[sm][sc]["equations"][eq].keys()), list(js[sm][sc]["equations"][eq].values()), ref0, eq):
                        return info, vs
        iid = json.loads(client.post("/start-instance").data)["instance_uuid"]
        resp = client.post("/%s/begin-session" % iid, json={"scenario_managers": [sm], "scenarios": [sc], "equations": eqs})
        got = {eq: ([], []) for eq in eqs}

        def take(step_res, flat_mode, idx):
            if not isinstance(step_res, dict) or "msg" in step_res or "error" in step_res:
                return False
            for eq in eqs:
                cell = step_res[sm][sc][eq]
                if flat_mode:
                    got[eq][0].append(grid[idx] if idx < len(grid) else None)
                    got[eq][1].append(float(cell))
                else:
                    t, v = _single(cell, eq)
                    got[eq][0].append(float(t))
                    got[eq][1].append(float(v))
            return True
        k = 0
        stop = False
        for call in case["calls"]:
            kind, st_ = call[0], call[-1]
            flat_mode = bool(case.get("flat")) and st_ is not None
            body = None if st_ is None else {"settings": {sm: {sc: st_}}, "flatResults": flat_mode}
            if kind == "step":
                resp = client.post("/%s/run-step" % iid, json=body) if body is not None else client.post("/%s/run-step" % iid)
                if resp.status_code != 200:
                    vs.append(Violation("rest-status:run-step", "run-step -> %d %r (call %r)" % (resp.status_code, resp.data[:200], call)))
                    return info, vs
                if not take(json.loads(resp.data), flat_mode, k):
                    stop = True
                else:
                    k += 1
            elif kind == "steps":
                b2 = {"numberSteps": call[1], "settings": {} if st_ is None else {sm: {sc: st_}}, "flatResults": flat_mode}
                resp = client.post("/%s/run-steps" % iid, json=b2)
                if resp.status_code != 200:
                    vs.append(Violation("rest-status:run-steps", "run-steps -> %d %r" % (resp.status_code, resp.data[:200])))
                    return info, vs
                for item in json.loads(resp.data):
                    if take(item, flat_mode, k):
                        k += 1
                    else:
                        stop = True
            else:
                resp = client.post("/%s/stream-steps" % iid, json=body) if body is not None else client.post("/%s/stream-steps" % iid)
                if resp.status_code != 200:
                    vs.append(Violation("rest-status:stream-steps", "stream-steps -> %d %r" % (resp.status_code, resp.data[:200])))
                    return info, vs
                try:
                    items = json.loads(resp.data)
                except Exception as e:
                    vs.append(Violation("rest-body:stream-steps", "stream-steps body is not JSON: %r" % resp.data[:300]))
                    return info, vs
                for item in items:
                    if take(item, flat_mode, k):
                        k += 1
                    else:
                        stop = True
                stop = True  # a stream runs to the end
            if stop:
                break
        # finish with plain run-steps, if the partition stopped early (a finished stream leaves nothing to do)
        if not stop and k <= n:
            resp = client.post("/%s/run-steps" % iid, json={"numberSteps": n + 1 - k, "settings": {}})
            if resp.status_code == 200:
                for item in json.loads(resp.data):
                    if take(item, False, k):
                        k += 1
        for eq in eqs:
            if not cmp_series("rest-session:full", got[eq][0], got[eq][1], ref1, eq):
                return info, vs
        sr = json.loads(client.get("/%s/session-results" % iid).data)
        fr = json.loads(client.get("/%s/flat-session-results" % iid).data)
        for eq in eqs:
            ok = cmp_series("rest-session-results:full", list(sr[sm][sc]["equations"][eq].keys()), list(sr[sm][sc]["equations"][eq].values()), ref1, eq) and \
                cmp_series("rest-flat-session-results:full", grid[:len(fr[sm][sc]["equations"][eq])], fr[sm][sc]["equations"][eq], ref1, eq)
            if not ok:
                return info, vs
    except Exception as e:
        import traceback
        vs.append(Violation("crash:rest:" + type(e).__name__, "REST flow raised %r (%s); calls %r" % (e, traceback.format_exc()[-400:], case["calls"])))
    finally:
        for bb in made:
            bb.destroy()
    return info, vs


def case_strategy():
    @st.composite
    def build(draw):
        model_kind = draw(st.sampled_from(["sf", "sd"]))
        if model_kind == "sd":
            # DSL-only vocabulary: delays (lagged reads of constants and elements), named lookups, step, time
            # (no built-ins directly inside stock equations: a lookup there is not an element of its own, so whether a points
            #  change at step k reaches the rate of interval k-1..k is not fixed by the statement)
            model = draw(SM.model_strategy(max_n=8, allow={"lookup", "delay", "step", "time"}, stock_builtins=False,
                                           runspecs=[("0", "1"), ("1", "0.5"), ("2.5", "0.25"), ("0", "0.1"), ("1", "0.2"), ("1", "1"),
                                                     ("-2", "1"), ("-1", "0.5"), ("-8", "1"), ("-3", "0.5")]))
            if not model["points"]:
                model["points"]["p0"] = [[0.0, 0.0], [2.0, 2.0], [4.0, 1.0]]
                model["aux"].insert(0, {"kind": "converter", "name": "c99", "eq": ["lookup", ["time"], "p0"]})
            # a lagged read of a constant: the value reported for the constant at an earlier step must be the value consumed later
            k0 = model["constants"][0]["name"]
            model["aux"].insert(0, {"kind": "converter", "name": "kc", "eq": ["ref", k0]})
            model["aux"].insert(1, {"kind": "converter", "name": "klag", "eq": ["delay", "kc", 2, None]})
            fl = next(a for a in model["aux"] if a["kind"] in ("flow", "biflow"))
            fl["eq"] = ["bin", "+", fl["eq"], ["ref", "klag"]]
            model["n"] = max(3, min(model["n"], 8))
            consts = [c["name"] for c in model["constants"]]
            gfs = sorted(model["points"])
        else:
            model = draw(c04.sf_strategy(8))
            if not any(a["kind"] == "gf" for a in model["aux"]):
                model["aux"].insert(0, {"kind": "gf", "name": "g99", "input": ["time"], "ypts": [0.0, 2.0, 1.0], "xmin": 0.0, "xmax": 4.0})
                fl = next(a for a in model["aux"] if a["kind"] in ("flow", "biflow"))
                fl["eq"] = ["bin", "+", fl["eq"], ["ref", "g99"]]
            model["dt_spec"] = draw(st.sampled_from([{"dt": "1"}, {"dt": "0.5"}, {"dt": "0.25"}, {"dt": "0.1"}, {"dt": "0.2"}]))
            model["start"] = draw(st.sampled_from(["0", "1", "2.5", "1", "-2", "-1", "-8", "-3"]))
            model["n"] = draw(st.integers(2, 8))
            if draw(st.integers(0, 5)) == 0:
                # a run that stops at exactly 0 (a stop time that is falsy)
                from decimal import Decimal
                model["start"] = str((-(model["n"] * Decimal(model["dt_spec"]["dt"]))).normalize() + 0)
            consts = [c["name"] for c in model["constants"]]
            gfs = [a["name"] for a in model["aux"] if a["kind"] == "gf"]

        def settings():
            what = draw(st.sampled_from(["none", "none", "empty", "c", "p", "cp", "c"]))
            if what == "none":
                return None
            out = {}
            if "c" in what:
                out["constants"] = {draw(st.sampled_from(consts)): draw(st.sampled_from([0.5, 1.0, 2.0, 3.0, 7.0]))}
            if "p" in what:
                k = draw(st.integers(2, 3))
                xs = sorted(draw(st.lists(st.sampled_from([-1.0, 0.0, 1.0, 2.0, 4.0, 8.0]), min_size=k, max_size=k, unique=True)))
                out["points"] = {draw(st.sampled_from(gfs)): [[x, draw(st.sampled_from([0.0, 1.0, 3.0, 5.0, -2.0]))] for x in xs]}
            return out
        calls = []
        for _ in range(draw(st.integers(1, 5))):
            kind = draw(st.sampled_from(["step", "step", "steps", "stream"]))
            if kind == "step":
                calls.append(["step", settings()])
            elif kind == "steps":
                calls.append(["steps", draw(st.integers(1, 4)), settings()])
            else:
                calls.append(["stream", settings()])
        eqs = draw(st.lists(st.integers(0, 20), min_size=1, max_size=5))
        return {"model": model, "model_kind": model_kind, "calls": calls, "eqs": eqs, "flat": draw(st.booleans()),
                "sibling": draw(st.sampled_from([None, "before", "after"])),
                "sibling_stop": draw(st.sampled_from([None, "longer"]))}
    return build()


def _body(ctx):
    def body(case):
        info, vs = check_case(case)
        if info["status"] != "ok":
            ctx.discard(info["status"])
            return
        kinds = set(c[0] for c in case["calls"])
        sched = _schedule(case)
        a_ = _abstract(case)
        nt = (len(kinds) >= 2 or any(k >= 1 for k, _ in sched)) and (a_["dt"] != "1" or a_["start"] != "1")
        labels = ["call:" + k for k in sorted(kinds)] + (["with-settings"] if sched else ["no-settings"]) + \
            (["two-scenario-session"] if case.get("sibling") else []) + \
            (["two-scenario-session:different-stop"] if case.get("sibling") and case.get("sibling_stop") else []) + \
            (["stop==0"] if float(a_["start"]) + a_["n"] * float(a_["dt"]) == 0 else []) + (["stop<=0"] if float(a_["start"]) + a_["n"] * float(a_["dt"]) <= 0 else []) + (["start<0"] if float(a_["start"]) < 0 else [])
        ctx.case({"calls": case["calls"], "eqs": case["eqs"], "flat": case["flat"], "model": SM.sym_show(_abstract(case))},
                 nontrivial=nt, labels=labels, key=case)
        ctx.report(vs)
    return body


def plan(tier):
    n = 100 if tier == "quick" else 800
    return [{"n": n} for _ in range(16)]


def run_shard(spec, ctx):
    ctx.hyp(case_strategy(), _body(ctx), spec["n"])
