"""C07 - a scenario's settings determine its results exactly.

Generator: product space kind {constants, points, runspecs} x level {base, scenario, both} x
channel {dict registration, one JSON file, two JSON files, session settings, REST /run settings}
x model flavour {SD DSL, XMILE source} (enumerated completely), instantiated with random
stock-and-flow models and values (Hypothesis).
Oracle: the Euler reference (vf.sdmodel.RefModel) on the abstract model carrying exactly the
scenario's effective settings, simulated from the scenario's start to its stop with its dt.
"""
import itertools
import json
import os
from decimal import Decimal

from hypothesis import strategies as st

from vf import expr as E
from vf import sdmodel as SM
from vf import xmile as X
from vf.props import c04
from vf.runner import Violation

ID = "C07"
LEVEL = "exploration"
TECHNIQUE = "exhaustive channel/level/kind table instantiated with generated models and values (Hypothesis) vs Euler reference with the scenario's effective settings"
RULE = ("cases = (override kind in {constants, points, runspecs, mixed}, level in {base, scenario, both}, channel in {dict, file, "
        "two files, session settings, REST /run settings, registered + later partial settings, second session, several scenarios per REST request}, flavour in {DSL, XMILE}; files re-read by reset_scenario / reset_all_scenarios / a second bptk; DSL models whose elements read the run specs) x generated stock/flow model x two scenarios with "
        "generated override values (numbers, point lists, points as string); each scenario's run must equal the reference with its "
        "effective settings (base values unless overridden) on its own grid. non-trivial = the override changes at least one "
        "reported value or grid point w.r.t. the un-overridden model; distinct by case")
ASSUMPTIONS = [
    "runspec overrides are only generated for DSL models (as the statement says); file channels only for XMILE-sourced models",
    "models used for dt overrides contain no dt()/pulse (the DSL bakes dt into those equation strings at build time)",
    "a session is started with the scenario's effective start time and dt",
    "file monitors are switched off through the documented configuration keys (set_scenario_monitor / set_model_monitor)",
]
EXHAUSTIVE_SCOPE = "the (kind, level, channel, flavour) table c07.table()"

KINDS = ["constants", "points", "runspecs", "mixed"]
LEVELS = ["base", "scenario", "both"]
CHANNELS = ["dict", "file", "file2", "session", "rest", "dict+session", "dict+rest", "dict+session2", "rest-multi"]
FLAVOURS = ["dsl", "xmile"]


def table():
    out = []
    for kind, level, channel, flavour in itertools.product(KINDS, LEVELS, CHANNELS, FLAVOURS):
        if kind in ("runspecs", "mixed") and flavour == "xmile":
            continue
        if kind == "runspecs" and level != "scenario":
            continue  # run specs have no manager-level form
        if channel in ("file", "file2") and flavour == "dsl":
            continue
        if channel in ("session", "rest", "dict+session", "dict+rest", "dict+session2", "rest-multi") and level != "scenario":
            continue  # settings are per scenario
        out.append({"kind": kind, "level": level, "channel": channel, "flavour": flavour})
    return out


_uid = [0]


def effective(case, sc, late=None):
    consts = dict(case["base"].get("constants", {}))
    consts.update(sc.get("constants", {}))
    pts = {k: _pts(v) for k, v in case["base"].get("points", {}).items()}
    pts.update({k: _pts(v) for k, v in sc.get("points", {}).items()})
    if late:
        consts.update(late.get("constants", {}))
        pts.update({k: _pts(v) for k, v in late.get("points", {}).items()})
    return consts, pts


def merged_runspecs(sc, late=None):
    rs = dict(sc.get("runspecs", {}))
    if late:
        rs.update(late.get("runspecs", {}))
    return rs


def _pts(v):
    return json.loads(v) if isinstance(v, str) else v


def _abstract(case):
    """the model as a vf.sdmodel abstract model; DSL-only cases may add elements that read the run specs"""
    a = c04.to_abstract(case["model"])
    if case.get("time_builtins"):
        a = dict(a)
        a["constants"] = list(a["constants"]) + [{"name": "kdel", "value": 1.0}]
        extra = [{"kind": "converter", "name": "tb_dt", "eq": ["bin", "*", ["dt"], ["num", 2.0]]},
                 {"kind": "converter", "name": "tb_rs", "eq": ["bin", "+", ["starttime"], ["stoptime"]]},
                 {"kind": "converter", "name": "tb_d", "eq": ["delay", "w", ["ref", "kdel"], None]}]
        rate = ["ref", "tb_d"]
        if case["model"]["dt_spec"].get("dt") in ("1", "0.5", "0.25"):
            extra.append({"kind": "flow", "name": "tb_p", "eq": ["pulse", 3.0, 2.0, 1.0]})
            rate = ["bin", "+", rate, ["ref", "tb_p"]]
        a["aux"] = list(a["aux"]) + extra
        a["stocks"] = list(a["stocks"]) + [{"name": "tb_s", "init": 0.0, "eq": rate}]
    return a


def scenario_abstract(case, sc, late=None):
    a = _abstract(case)
    rs = merged_runspecs(sc, late)
    start = Decimal(str(rs["starttime"])) if "starttime" in rs else Decimal(a["start"])
    dt = Decimal(str(rs["dt"])) if "dt" in rs else Decimal(a["dt"])
    stop = Decimal(str(rs["stoptime"])) if "stoptime" in rs else Decimal(a["start"]) + a["n"] * Decimal(a["dt"])
    n = (stop - start) / dt
    if n != int(n) or n < 0:
        return None
    a = dict(a)
    a["start"], a["dt"], a["n"] = str(start), str(dt), int(n)
    return a


def check_case(case):
    from BPTK_Py import bptk

    info = {"status": "ok", "nontrivial": False}
    vs = []
    cfg = case["cfg"]
    channel, flavour = cfg["channel"], cfg["flavour"]
    _uid[0] += 1
    sm = "smC07"
    abstract0 = _abstract(case)
    names = SM.element_names(abstract0)
    conf = {"set_scenario_monitor": False, "set_model_monitor": False}
    # reference per scenario
    refs = {}
    try:
        base_ref = SM.RefModel(abstract0, limit=1e9).run()
        for scn, sc in case["scenarios"].items():
            lt = case.get("late", {}).get(scn) if channel.startswith("dict+") else None
            a = scenario_abstract(case, sc, lt)
            if a is None:
                info["status"] = "bad-runspec"
                return info, vs
            ec, ep = effective(case, sc, lt)
            refs[scn] = (a, SM.RefModel(a, constants=ec, points=ep, limit=1e9).run())
            if SM.grid(a) != SM.grid(abstract0) or any(refs[scn][1][nm] != base_ref[nm] for nm in names):
                info["nontrivial"] = True
    except E.Fragile:
        info["status"] = "fragile"
        return info, vs

    # where do the settings travel?
    reg_sc = {scn: {} for scn in case["scenarios"]}
    late = {}
    for scn, sc in case["scenarios"].items():
        if channel in ("session", "rest", "rest-multi"):
            late[scn] = sc
        elif channel.startswith("dict+"):
            reg_sc[scn] = json.loads(json.dumps(sc))
            late[scn] = json.loads(json.dumps(case.get("late", {}).get(scn, {})))
        else:
            reg_sc[scn] = json.loads(json.dumps(sc))
    base = json.loads(json.dumps(case["base"]))
    mod_base = "xm%d_%d" % (os.getpid(), _uid[0])
    os.makedirs("simulation_models", exist_ok=True)
    os.makedirs("scenarios", exist_ok=True)
    for f in os.listdir("scenarios"):
        os.remove(os.path.join("scenarios", f))
    b = None
    server_bptk = None
    try:
        if flavour == "xmile":
            with open("simulation_models/%s.stmx" % mod_base, "w") as f:
                f.write(c04.to_xmile(case["model"]))
        if channel in ("file", "file2"):
            mgr = {"model": "simulation_models/" + mod_base, "source": "simulation_models/%s.stmx" % mod_base}
            scs = list(reg_sc.items())
            if channel == "file":
                d = dict(mgr)
                if base.get("constants"):
                    d["base_constants"] = base["constants"]
                if base.get("points"):
                    d["base_points"] = base["points"]
                d["scenarios"] = dict(scs)
                json.dump({sm: d}, open("scenarios/a_first.json", "w"))
            else:
                d1 = dict(mgr)
                d2 = dict(mgr)
                if base.get("constants"):
                    d1["base_constants"] = base["constants"]
                if base.get("points"):
                    d2["base_points"] = base["points"]
                d1["scenarios"] = dict(scs[:1])
                d2["scenarios"] = dict(scs[1:])
                json.dump({sm: d1}, open("scenarios/a_first.json", "w"))
                json.dump({sm: d2}, open("scenarios/b_second.json", "w"))
            b = bptk(configuration=dict(conf))
        else:
            b = bptk(configuration=dict(conf))
            mgr = {}
            if flavour == "dsl":
                model, elems = SM.build_dsl(abstract0, name="c07")
                mgr["model"] = model
            else:
                mgr["model"] = "simulation_models/" + mod_base
                mgr["source"] = "simulation_models/%s.stmx" % mod_base
            if base.get("constants"):
                mgr["base_constants"] = base["constants"]
            if base.get("points"):
                mgr["base_points"] = base["points"]
            b.register_scenario_manager({sm: mgr})
            b.register_scenarios(reg_sc, sm)
        # ---- obtain results ----------------------------------------------------
        if case.get("reread") and channel in ("file", "file2"):
            # the scenarios are changed in memory by a session, then read again from their (unchanged) files - by
            # reset_scenario / reset_all_scenarios and by a second bptk on the same folder: the file values count
            first = list(case["scenarios"])[0]
            consts = [c["name"] for c in abstract0["constants"]]
            b.begin_session(scenarios=[first], scenario_managers=[sm], equations=names,
                            settings={sm: {first: {"constants": {nm: 99.0 for nm in consts}}}})
            b.run_step()
            b.end_session()
            if case["reread"] == "reset_scenario":
                b.reset_scenario(scenario_manager=sm, scenario=first)
            elif case["reread"] == "reset_all":
                b.reset_all_scenarios()
            else:
                b.destroy()
                b = bptk(configuration=dict(conf))
        if case.get("prior_run") and channel not in ("dict", "file", "file2"):
            # the scenarios have been simulated before the settings arrive
            b.run_scenarios(scenarios=list(case["scenarios"]), scenario_managers=[sm], equations=names, return_format="dict")
        multi = None
        if channel == "rest-multi":
            from BPTK_Py import BptkServer
            holder = b
            app = BptkServer(__name__, bptk_factory=lambda: holder)
            app.logger.disabled = True
            client = app.test_client()
            client.post("/run", json={"scenario_managers": [sm], "scenarios": list(case["scenarios"]), "equations": names})
            resp = client.post("/run", json={"scenario_managers": [sm], "scenarios": list(case["scenarios"]), "equations": names,
                                             "settings": {sm: {scn_: late[scn_] for scn_ in case["scenarios"]}}})
            if resp.status_code != 200:
                vs.append(Violation("rest-status:%d" % resp.status_code, "POST /run (two scenarios) returned %d %r" % (resp.status_code, resp.data[:200])))
                return info, vs
            multi = json.loads(resp.data)
        for scn in case["scenarios"]:
            a, ref = refs[scn]
            grid = SM.grid(a)
            scale = SM.model_scale(ref)
            got = None
            try:
                if channel in ("dict", "file", "file2"):
                    res = b.run_scenarios(scenarios=[scn], scenario_managers=[sm], equations=names, return_format="dict")
                    if res is None:
                        vs.append(Violation("no-result:%s:%s" % (channel, flavour), "run_scenarios returned None for scenario %s; cfg %r" % (scn, cfg)))
                        break
                    got = {nm: res[sm][scn]["equations"][nm] for nm in names}
                    got = {nm: ([float(x) for x in s.index], [float(x) for x in s]) for nm, s in got.items()}
                elif channel == "rest-multi":
                    got = {nm: ([float(k) for k in multi[sm][scn]["equations"][nm].keys()], [float(v) for v in multi[sm][scn]["equations"][nm].values()])
                           for nm in names}
                elif channel == "dict+session2":
                    # a first session with the registered settings only, then a second one that brings the late settings
                    b.begin_session(scenarios=[scn], scenario_managers=[sm], equations=names)
                    b.run_step()
                    b.run_step()
                    b.end_session()
                    b.begin_session(scenarios=[scn], scenario_managers=[sm], equations=names, settings={sm: {scn: late[scn]}})
                    for _ in range(len(grid) + 3):
                        r = b.run_step()
                        if r is None or "msg" in r:
                            break
                    res = b.session_results(index_by_time=False)
                    b.end_session()
                    got = {nm: ([float(k) for k in res[sm][scn]["equations"][nm].keys()], [float(v) for v in res[sm][scn]["equations"][nm].values()])
                           for nm in names}
                elif channel in ("session", "dict+session"):
                    b.begin_session(scenarios=[scn], scenario_managers=[sm], equations=names, settings={sm: {scn: late[scn]}},
                                    starttime=grid[0], dt=float(a["dt"]))
                    for _ in range(len(grid) + 3):
                        r = b.run_step()
                        if r is None or "msg" in r:
                            break
                    res = b.session_results(index_by_time=False)
                    b.end_session()
                    got = {nm: ([float(k) for k in res[sm][scn]["equations"][nm].keys()], [float(v) for v in res[sm][scn]["equations"][nm].values()])
                           for nm in names}
                else:  # rest
                    from BPTK_Py import BptkServer
                    holder = b
                    app = BptkServer(__name__, bptk_factory=lambda: holder)
                    client = app.test_client()
                    resp = client.post("/run", json={"scenario_managers": [sm], "scenarios": [scn], "equations": names,
                                                     "settings": {sm: {scn: late[scn]}}})
                    if resp.status_code != 200:
                        vs.append(Violation("rest-status:%d" % resp.status_code, "POST /run returned %d %r" % (resp.status_code, resp.data[:200])))
                        break
                    res = json.loads(resp.data)
                    got = {nm: ([float(k) for k in res[sm][scn]["equations"][nm].keys()], [float(v) for v in res[sm][scn]["equations"][nm].values()])
                           for nm in names}
            except Exception as e:
                vs.append(Violation("crash:%s:%s:%s:%s" % (channel, flavour, cfg["kind"], type(e).__name__),
                                    "scenario %s via %s raised %r; settings %r base %r" % (scn, channel, e, case["scenarios"][scn], case["base"])))
                break
            for nm in names:
                times, vals = got[nm]
                if times != grid:
                    vs.append(Violation("grid:%s:%s:%s" % (channel, flavour, cfg["kind"]),
                                        "scenario %s: %s reported on grid %r..%r (%d points), scenario run specs give %r..%r (%d points); settings %r"
                                        % (scn, nm, times[:2], times[-2:], len(times), grid[:2], grid[-2:], len(grid), case["scenarios"][scn])))
                    break
                bad = next((i for i, (g, w) in enumerate(zip(vals, ref[nm])) if not SM.values_agree(g, w, scale, a["n"])), None)
                if bad is not None:
                    vs.append(Violation("value:%s:%s:%s:%s" % (channel, flavour, cfg["kind"], cfg["level"]),
                                        "scenario %s: %s(%r)=%r, a model built with the scenario's settings gives %r; scenario settings %r, base %r, model %r"
                                        % (scn, nm, grid[bad], vals[bad], ref[nm][bad], case["scenarios"][scn], case["base"], SM.sym_show(abstract0))))
                    break
            if vs:
                break
    finally:
        if b is not None:
            b.destroy()
    return info, vs


# ---------------------------------------------------------------------------


def case_strategy(cfg):
    @st.composite
    def build(draw):
        model = draw(c04.sf_strategy(10))
        # make sure there is a graphical function and that dt is simple
        if not any(a["kind"] == "gf" for a in model["aux"]):
            model["aux"].insert(0, {"kind": "gf", "name": "g99", "input": ["time"], "ypts": [0.0, 2.0, 1.0], "xmin": 0.0, "xmax": 4.0})
            # let a flow use it
            fl = next(a for a in model["aux"] if a["kind"] in ("flow", "biflow"))
            fl["eq"] = ["bin", "+", fl["eq"], ["ref", "g99"]]
            # the gf must be declared before its user: it is at position 0 already
        model["dt_spec"] = draw(st.sampled_from([{"dt": "1"}, {"dt": "0.5"}, {"dt": "0.25"}, {"dt": "0.1"}]))
        model["start"] = draw(st.sampled_from(["0", "1", "2"]))
        model["n"] = draw(st.integers(3, 8))
        consts = [c["name"] for c in model["constants"]]
        gfs = [a["name"] for a in model["aux"] if a["kind"] == "gf"]
        kind, level = cfg["kind"], cfg["level"]

        def cvals():
            k = draw(st.integers(1, len(consts)))
            return {nm: draw(st.sampled_from([0.5, 1.0, 2.0, 3.0, 7.0, 0.25, 0.0, 0])) for nm in draw(st.lists(st.sampled_from(consts), min_size=k, max_size=k, unique=True))}

        def pvals():
            out = {}
            for nm in draw(st.lists(st.sampled_from(gfs), min_size=1, max_size=len(gfs), unique=True)):
                k = draw(st.integers(2, 4))
                xs = sorted(draw(st.lists(st.sampled_from([-1.0, 0.0, 1.0, 2.0, 4.0, 8.0]), min_size=k, max_size=k, unique=True)))
                pts = [[x, draw(st.sampled_from([0.0, 1.0, 3.0, 5.0, -2.0]))] for x in xs]
                out[nm] = json.dumps(pts) if (cfg["channel"] in ("dict", "file", "file2") and draw(st.integers(0, 3)) == 0) else pts
            return out

        def rvals():
            a = c04.to_abstract(model)
            dt0 = Decimal(a["dt"])
            start0 = Decimal(a["start"])
            out = {}
            which = draw(st.sampled_from([["starttime"], ["stoptime"], ["dt"], ["starttime", "stoptime"], ["starttime", "stoptime", "dt"], ["stoptime", "dt"]]))
            dt = Decimal(draw(st.sampled_from(["1", "0.5", "0.25"]))) if "dt" in which else dt0
            start = (start0 + draw(st.integers(1, 3)) if (start0 == 0 or draw(st.booleans())) else Decimal(0)) if "starttime" in which else start0
            stop0 = start0 + a["n"] * dt0
            stop = start + draw(st.integers(2, 6)) if "stoptime" in which else stop0
            if stop <= start:
                stop = start + 2
            # keep stop on the grid
            if ((stop - start) / dt) != int((stop - start) / dt):
                stop = start + int((stop - start) / dt) * dt + dt
            if "dt" in which:
                out["dt"] = float(dt)
            if "starttime" in which:
                out["starttime"] = float(start)
            if "stoptime" in which or ((stop0 - start) / dt) != int((stop0 - start) / dt) or stop0 <= start:
                out["stoptime"] = float(stop)
            return out

        base = {}
        scenarios = {"scA": {}, "scB": {}}
        if kind in ("constants", "mixed"):
            if level in ("base", "both"):
                base["constants"] = cvals()
            if level in ("scenario", "both"):
                scenarios["scA"]["constants"] = cvals()
                if draw(st.booleans()):
                    scenarios["scB"]["constants"] = cvals()
        if kind in ("points", "mixed"):
            if level in ("base", "both"):
                base["points"] = pvals()
            if level in ("scenario", "both"):
                scenarios["scA"]["points"] = pvals()
                if draw(st.booleans()):
                    scenarios["scB"]["points"] = pvals()
        if kind in ("runspecs", "mixed"):
            scenarios["scA"]["runspecs"] = rvals()
            if draw(st.booleans()):
                scenarios["scB"]["runspecs"] = rvals()
        case = {"cfg": cfg, "model": model, "base": base, "scenarios": scenarios, "prior_run": draw(st.booleans())}
        if cfg["channel"].startswith("dict+"):
            late = {}
            for scn in scenarios:
                lt = {}
                if kind in ("constants", "mixed") and draw(st.booleans()):
                    lt["constants"] = cvals()
                if kind in ("points", "mixed") and draw(st.booleans()):
                    lt["points"] = {k: _pts(v) for k, v in pvals().items()}
                if kind in ("runspecs", "mixed"):
                    # a partial run spec block: only the stop time moves (stays on the grid of the registered run specs)
                    a0 = scenario_abstract({"model": model, "base": base}, scenarios[scn])
                    if a0 is not None and draw(st.booleans()):
                        stop = Decimal(a0["start"]) + (a0["n"] + draw(st.integers(1, 3))) * Decimal(a0["dt"])
                        lt["runspecs"] = {"stoptime": float(stop)}
                late[scn] = lt
            case["late"] = late
        if cfg["channel"] in ("file", "file2"):
            case["reread"] = draw(st.sampled_from([None, "reset_scenario", "reset_all", "second-bptk"]))
        if cfg["flavour"] == "dsl" and kind in ("runspecs", "mixed"):
            # elements that read the run specs themselves: dt(), starttime(), stoptime(), delay and pulse
            case["time_builtins"] = draw(st.booleans())
        return case
    return build()


def _body(ctx):
    def body(case):
        info, vs = check_case(case)
        if info["status"] != "ok":
            ctx.discard(info["status"])
            return
        cfg = case["cfg"]
        ctx.case({"cfg": cfg, "base": case["base"], "scenarios": case["scenarios"], "model": SM.sym_show(_abstract(case))},
                 nontrivial=info["nontrivial"], labels=["channel:" + cfg["channel"], "kind:" + cfg["kind"], "level:" + cfg["level"], "flavour:" + cfg["flavour"]] +
                 (["reads-run-specs"] if case.get("time_builtins") else []) + (["reread:" + case["reread"]] if case.get("reread") else []),
                 key=case)
        ctx.report(vs)
    return body


def plan(tier):
    tb = table()
    per = 12 if tier == "quick" else 120
    specs = []
    shards = 16
    for i in range(shards):
        specs.append({"cfgs": [c for j, c in enumerate(tb) if j % shards == i], "per": per})
    return specs


def run_shard(spec, ctx):
    import sys
    if os.getcwd() not in sys.path:
        sys.path.insert(0, os.getcwd())
    body = _body(ctx)
    ctx.extra["table_rows"] = len(spec["cfgs"])
    for k, cfg in enumerate(spec["cfgs"]):
        ctx.hyp(case_strategy(cfg), body, spec["per"], salt="cfg%d" % k)
    ctx.exhaustive = True
