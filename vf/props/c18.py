"""C18 - step-advancing requests on one instance never interleave.

Generator: 2-3 concurrent stepping requests (run-step, run-steps k, stream-steps; all kind pairs) on
one instance, each in its own thread with its own test client, executed under the deterministic
line-level scheduler (vf.sched) tracing server/bptkServer.py and bptk.py.  Schedules: every
interleaving with <= 1 preemption (exhaustive), <= 2 preemptions inside the request handlers'
first lines (exhaustive over that window), and Hypothesis-generated choice lists.  After each
scenario a follow-up request checks that the lock was released.
Oracle: history invariant - each successful response holds consecutive grid times, no time is
produced twice, the session clock advanced by exactly the number of steps returned, the instance
is unlocked and usable afterwards.
"""
import itertools
import json
import threading

from hypothesis import strategies as st

from vf import sched as SC
from vf.runner import Violation

ID = "C18"
LEVEL = "exploration"
TECHNIQUE = "deterministic line-level thread scheduler: bounded-exhaustive (<= 1 preemption, <= 2 in a window) and generated schedules of concurrent stepping requests; history invariant"
RULE = ("cases = (list of 2-3 concurrent requests out of run-step / run-steps 2 / stream-steps, schedule) where a schedule is a set of "
        "preemption points or a choice list over the executed source lines of server/bptkServer.py and bptk.py; also ten error / "
        "client-abort endings (incl. a body iterable closed before its first chunk), servers with a FileAdapter, a concurrent GET /save-state and a final POST /load-state. Invariant: consecutive times per response, no duplicate time, clock == start + steps*dt, unlocked and "
        "usable afterwards. non-trivial = schedule with >= 1 preemption (a switch between the requests' traced lines); distinct by case")
ASSUMPTIONS = [
    "resolution = source lines of bptkServer.py and bptk.py; Flask/Werkzeug internals and the simulation run unscheduled but atomically (one controlled thread runs at a time)",
    "a refused request (non-200) advances nothing",
]
EXHAUSTIVE_SCOPE = ("all schedules with <= 1 preemption for every request list in c18.LISTS; all schedules with 2 preemptions among the first WINDOW "
                    "scheduling points for the pairs; thorough tier: all schedules with 3 preemptions over the lock-protocol lines (try_lock/lock/unlock/"
                    "is_locked/release and the entry of each run_step) for the triples in c18.LOCK3_LISTS")

SM, SCN = "smC18", "base"
TRACE_FILES = ("server/bptkServer.py", "BPTK_Py/bptk.py")
KINDS = ["step", "steps", "stream"]
LISTS = [list(p) for p in itertools.product(KINDS, repeat=2)] + [["steps", "step", "stream"], ["stream", "steps", "steps"], ["step", "step", "steps"]]
WINDOW = 36
# focus mode: only the lines of the lock protocol and of the three handlers are scheduling points (fewer points, deeper schedules)
# lock mode: only the lock protocol itself plus the entry of every run_step call (deep schedules: 3 preemptions exhaustively)
FOCUS_LOCK = ("try_lock", "lock", "unlock", "is_locked", "release")
LOCK3_LISTS = [["steps", "stream-abort", "steps"], ["stream-abort", "steps", "steps"], ["steps", "steps-poisoned", "steps"],
               ["steps", "steps", "steps"]]
FOCUS = ("try_lock", "lock", "unlock", "is_locked", "_run_step_resource", "_run_steps_resource", "_stream_steps_resource", "streamer",
         "release", "_save_state_resource", "_get_instance_state", "get_instance_states")
# lists run against a server with a FileAdapter (every stepping request saves the instance state; "save" = GET /save-state)
ADAPTER_LISTS = [["stream", "save", "steps"], ["steps", "save", "steps"], ["steps", "save", "step"], ["step", "steps", "steps"], ["step", "stream", "steps"],
                 ["stream-unstarted", "save"], ["stream-abort", "save"], ["stream", "save"], ["steps", "save"]]
ERROR_ENDINGS = ["steps-poisoned", "steps-nosettings", "steps-nonumber", "steps-nonjson", "steps-badnumber", "step-poisoned", "step-badjson",
                 "stream-poisoned", "stream-abort", "stream-unstarted"]
START, STOP, DT = 1.0, 6.0, 1.0


def _factory(made):
    def factory():
        from BPTK_Py import Model, bptk
        m = Model(starttime=START, stoptime=STOP, dt=DT, name="c18")
        s = m.stock("s")
        f = m.flow("f")
        f.equation = 1.0
        s.equation = f
        b = bptk()
        b.register_model(m, scenario_manager=SM)
        made.append(b)
        return b
    return factory


def _times(body):
    """list of step times in a response body (list of step results or one step result)"""
    out = []
    items = body if isinstance(body, list) else [body]
    for it in items:
        if isinstance(it, dict) and SM in it:
            for t in it[SM][SCN]["s"].keys():
                out.append(float(t))
    return out


def run_case(case):
    from BPTK_Py import BptkServer

    made = []
    adir = None
    adapter = None
    if case.get("adapter"):
        import tempfile
        from BPTK_Py import FileAdapter
        adir = tempfile.mkdtemp(prefix="c18_", dir=".")
        adapter = FileAdapter(False, adir)
    app = BptkServer(__name__, bptk_factory=_factory(made), external_state_adapter=adapter)
    app.logger.disabled = True
    c0 = app.test_client()
    iid = json.loads(c0.post("/start-instance").data)["instance_uuid"]
    c0.post("/%s/begin-session" % iid, json={"scenario_managers": [SM], "scenarios": [SCN], "equations": ["s"]})
    if case.get("presteps"):
        c0.post("/%s/run-steps" % iid, json={"numberSteps": case["presteps"], "settings": {}})
    inst = app._instance_manager._instances[iid]["instance"]
    step_before = inst.session_state["step"]
    reqs = case["requests"]
    if "choices" in case:
        chooser = SC.list_chooser(case["choices"])
    else:
        chooser = SC.preempt_chooser({int(k): v for k, v in case["preempt"].items()})
    if case.get("focus") == "lock":
        sch = SC.Scheduler(TRACE_FILES, chooser, expected=len(reqs), timeout=30.0, funcs=FOCUS_LOCK, first_only=("run_step",))
    else:
        sch = SC.Scheduler(TRACE_FILES, chooser, expected=len(reqs), timeout=30.0, funcs=FOCUS if case.get("focus") else None)
    results = [None] * len(reqs)
    if hasattr(inst, "_lock_guard"):
        inst._lock_guard = SC.CoopLock(sch)  # same mutex semantics, but a blocked thread yields the scheduler's turn

    def worker(i, kind):
        client = app.test_client()
        sch.begin()
        try:
            if kind == "step":
                resp = client.post("/%s/run-step" % iid)
            elif kind == "steps":
                resp = client.post("/%s/run-steps" % iid, json={"numberSteps": 2, "settings": {}})
            elif kind == "steps-poisoned":
                resp = client.post("/%s/run-steps" % iid, json={"numberSteps": 2, "settings": {SM: {SCN: {"constants": 5}}}})
            elif kind == "steps-nosettings":
                resp = client.post("/%s/run-steps" % iid, json={"numberSteps": 2})
            elif kind == "steps-nonumber":
                resp = client.post("/%s/run-steps" % iid, json={"settings": {}})
            elif kind == "steps-nonjson":
                resp = client.post("/%s/run-steps" % iid, data="numberSteps=2")
            elif kind == "steps-badnumber":
                resp = client.post("/%s/run-steps" % iid, json={"numberSteps": "two", "settings": {}})
            elif kind == "step-poisoned":
                resp = client.post("/%s/run-step" % iid, json={"settings": {SM: {SCN: {"constants": 5}}}})
            elif kind == "step-badjson":
                resp = client.post("/%s/run-step" % iid, data='{"settings": ', content_type="application/json")
            elif kind == "stream-poisoned":
                resp = client.post("/%s/stream-steps" % iid, json={"settings": {SM: {SCN: {"constants": 5}}}})
            elif kind == "save":
                resp = client.get("/save-state")
            elif kind == "stream-unstarted":
                # the client goes away after the headers: the WSGI server closes the body iterable without ever iterating it
                from werkzeug.test import EnvironBuilder
                env = EnvironBuilder(path="/%s/stream-steps" % iid, method="POST").get_environ()
                status = []
                app_iter = app.wsgi_app(env, lambda st_, hd, exc=None: status.append(st_))
                if hasattr(app_iter, "close"):
                    app_iter.close()
                results[i] = (int(status[0].split()[0]) if status else None, None, "aborted")
                return
            elif kind == "stream-abort":
                resp = client.post("/%s/stream-steps" % iid, buffered=False)
                it = resp.response
                chunk = []
                try:
                    for n_, part in enumerate(it):
                        chunk.append(part)
                        if n_ >= 2:
                            break
                finally:
                    resp.close()
                results[i] = (resp.status_code, None, "aborted")
                return
            else:
                resp = client.post("/%s/stream-steps" % iid)
            data = resp.get_data(as_text=True)
            resp.close()  # a WSGI server closes the response after the last chunk (runs call_on_close callbacks)
            try:
                body = json.loads(data)
            except Exception:
                body = data
            results[i] = (resp.status_code, body, None)
        except BaseException as e:
            results[i] = (None, None, repr(e))
        finally:
            sch.end()

    threads = [threading.Thread(target=worker, args=(i, k)) for i, k in enumerate(reqs)]
    for t in threads:
        t.start()
    for t in threads:
        t.join(60)
    if sch.failed or any(t.is_alive() for t in threads):
        raise SC.SchedTimeout(sch.failed or "worker did not finish")
    info = {"points": sch.points, "preemptions": sch.preemptions, "trace": sch.trace}
    vs = []
    sig_ctx = "+".join(reqs)
    seen = {}
    total = 0
    for i, (status, body, err) in enumerate(results):
        if err and err != "aborted":
            vs.append(Violation("request-crashed:" + reqs[i], "request %d (%s) raised %s; schedule %r" % (i, reqs[i], err, sch.trace)))
            continue
        if status != 200 or body is None:
            continue
        ts = _times(body)
        total += len(ts)
        for a, b_ in zip(ts, ts[1:]):
            if abs((b_ - a) - DT) > 1e-9:
                vs.append(Violation("non-consecutive:%s" % sig_ctx, "response of request %d (%s) holds times %r; requests %r schedule %r; all responses %r"
                                    % (i, reqs[i], ts, reqs, sch.trace, [(r[0], _times(r[1]) if r[1] is not None else None) for r in results])))
                break
        for t in ts:
            if t in seen:
                vs.append(Violation("duplicate-time:%s" % sig_ctx, "time %r produced by request %d (%s) and request %d (%s); schedule %r"
                                    % (t, seen[t], reqs[seen[t]], i, reqs[i], sch.trace)))
            seen[t] = i
    aborted = any(r[2] == "aborted" for r in results if r)
    step_after = inst.session_state["step"] if inst.session_state else None
    if not aborted and step_after is not None and abs(step_after - (step_before + total * DT)) > 1e-9:
        vs.append(Violation("clock-mismatch:%s" % sig_ctx, "session clock went from %r to %r but %d steps were returned; requests %r schedule %r responses %r"
                            % (step_before, step_after, total, reqs, sch.trace, [(r[0], _times(r[1]) if r[1] is not None else None) for r in results])))
    # lock released, instance usable
    if inst.is_locked():
        ending = "abort" if aborted else ("error" if any("-" in r for r in reqs) else "completion")
        vs.append(Violation("lock-not-released:%s:%s" % (ending, "+".join(sorted(set(reqs)))), "instance is still locked after all requests ended (%s); requests %r schedule %r statuses %r"
                            % (ending, reqs, sch.trace, [r[0] for r in results])))
    elif adapter is not None:
        # no request is in progress any more: the externalised state must not carry a lock either
        r_ = c0.post("/load-state")
        follow = c0.post("/%s/run-step" % iid)
        if follow.status_code != 200:
            vs.append(Violation("locked-after-reload:" + "+".join(sorted(set(reqs))),
                                "after all requests ended and POST /load-state (%d) the follow-up run-step -> %d %r; requests %r schedule %r"
                                % (r_.status_code, follow.status_code, follow.data[:100], reqs, sch.trace)))
    else:
        follow = c0.post("/%s/run-step" % iid)
        if follow.status_code != 200:
            vs.append(Violation("follow-up-refused", "follow-up run-step -> %d %r" % (follow.status_code, follow.data[:100])))
    for b in made:
        try:
            b.destroy()
        except Exception:
            pass
    if adir:
        import shutil
        shutil.rmtree(adir, ignore_errors=True)
    out = {}
    for v in vs:
        out.setdefault(v.signature, v)
    return info, list(out.values())


def check_case(case):
    return run_case(case)


def _body(ctx):
    def body(case):
        info, vs = check_case(case)
        ctx.extra["schedule_points_max"] = max(ctx.extra.get("schedule_points_max", 0), info["points"])
        ctx.case({"requests": case["requests"], "schedule": ("choice-list[%d]" % len(case["choices"])) if "choices" in case else case["preempt"],
                  "points": info["points"], "switches": info["trace"][:6]}, nontrivial=info["preemptions"] >= 1,
                 labels=["reqs:" + "+".join(case["requests"]), "preemptions:%d" % min(info["preemptions"], 3)] + (["focus-mode"] if case.get("focus") else []) +
                 (["with-adapter"] if case.get("adapter") else []), key=case)
        ctx.report(vs)
    return body


def _probe(reqs):
    info, _ = run_case({"requests": reqs, "preempt": {}})
    return info["points"]


def plan(tier):
    specs = []
    lists = LISTS
    per = 1
    for i in range(0, len(lists), per):
        specs.append({"kind": "one", "lists": lists[i:i + per]})
    pairs2 = [["steps", "steps"], ["step", "steps"], ["steps", "stream"], ["stream", "stream"]] if tier == "quick" else [l for l in LISTS if len(l) == 2]
    for l in pairs2:
        for part in range(3):
            specs.append({"kind": "two", "reqs": l, "window": WINDOW if tier == "quick" else 80, "part": part, "of": 3})
    specs.append({"kind": "endings"})
    for l in ADAPTER_LISTS:
        for part in range(2):
            specs.append({"kind": "adapter", "reqs": l, "part": part, "of": 2, "two": 28 if tier == "quick" else 200})
    if tier == "quick":
        # 3 preemptions over the lock protocol with the first one at point 0 (hands the start to the second request)
        for reqs in LOCK3_LISTS[:2]:
            for part in range(4):
                specs.append({"kind": "lock3", "reqs": reqs, "part": part, "of": 4, "first0": True})
    if tier == "thorough":
        for reqs in LOCK3_LISTS:
            for part in range(4):
                specs.append({"kind": "lock3", "reqs": reqs, "part": part, "of": 4})
    for i in range(3):
        specs.append({"kind": "rand", "n": 100 if tier == "quick" else 5000})
    for i in range(1):
        specs.append({"kind": "rand", "focus": True, "n": 300 if tier == "quick" else 10000})
    for i in range(2):
        specs.append({"kind": "rand", "segments": True, "n": 400 if tier == "quick" else 12000})
    return specs


def run_shard(spec, ctx):
    body = _body(ctx)
    if spec["kind"] == "one":
        def cases():
            for reqs in spec["lists"]:
                P = _probe(reqs)
                yield {"requests": reqs, "preempt": {}}
                for p in range(P + 1):
                    for cch in range(1, len(reqs)):
                        yield {"requests": reqs, "preempt": {str(p): cch}}
        ctx.enum(cases(), body)
        ctx.exhaustive = True
    elif spec["kind"] == "two":
        reqs = spec["reqs"]

        def cases():
            W = spec["window"]
            k = 0
            for p1 in range(W):
                for p2 in range(p1 + 1, p1 + W):
                    if k % spec.get("of", 1) == spec.get("part", 0):
                        yield {"requests": reqs, "preempt": {str(p1): 1, str(p2): 1}}
                    k += 1
        ctx.enum(cases(), body)
        ctx.exhaustive = True
    elif spec["kind"] == "adapter":
        reqs = spec["reqs"]

        def cases():
            # focus mode (lock protocol, handlers and the state snapshot): all schedules with <= 1 preemption, and all with 2
            # preemptions among the first `two` scheduling points
            info0, _ = run_case({"requests": reqs, "preempt": {}, "focus": True, "adapter": True})
            P = info0["points"] + 2
            k = 0
            if spec["part"] == 0:
                yield {"requests": reqs, "preempt": {}, "focus": True, "adapter": True}
            chs = (1, 2) if len(reqs) > 2 else (1,)
            for p1 in range(P):
                for c1 in chs:
                    if k % spec["of"] == spec["part"]:
                        yield {"requests": reqs, "preempt": {str(p1): c1}, "focus": True, "adapter": True}
                    k += 1
            W = min(P, spec["two"])
            for p1 in range(W):
                for p2 in range(p1 + 1, W):
                    for cs in itertools.product(chs, repeat=2):
                        if k % spec["of"] == spec["part"]:
                            yield {"requests": reqs, "preempt": {str(p1): cs[0], str(p2): cs[1]}, "focus": True, "adapter": True}
                        k += 1
        ctx.enum(cases(), body)
        ctx.exhaustive = True
    elif spec["kind"] == "lock3":
        reqs = spec["reqs"]

        def cases():
            info0, _ = run_case({"requests": reqs, "preempt": {}, "focus": "lock", "presteps": spec.get("presteps", 0)})
            P = info0["points"] + 2
            k = 0
            for p1 in (range(P) if not spec.get("first0") else range(1)):
                for p2 in range(p1 + 1, P):
                    for p3 in range(p2 + 1, P):
                        for cs in itertools.product((1, 2), repeat=3):
                            if k % spec["of"] == spec["part"]:
                                yield {"requests": reqs, "focus": "lock", "presteps": spec.get("presteps", 0),
                                       "preempt": {str(p1): cs[0], str(p2): cs[1], str(p3): cs[2]}}
                            k += 1
        ctx.enum(cases(), body)
        ctx.exhaustive = True
    elif spec["kind"] == "endings":
        def cases():
            for reqs in [[e] for e in ERROR_ENDINGS] + [[e, "step"] for e in ERROR_ENDINGS] + [["stream"], ["steps"], ["step"]]:
                P = _probe(reqs) if len(reqs) > 1 else 0
                yield {"requests": reqs, "preempt": {}}
                for p in range(0, P + 1, 3):
                    yield {"requests": reqs, "preempt": {str(p): 1}}
            for pre in (4, 5, 6):
                for reqs in (["steps"], ["stream"], ["step", "steps"]):
                    yield {"requests": reqs, "preempt": {}, "presteps": pre}
            for ad in (True,):
                for reqs in [[e] for e in ERROR_ENDINGS] + [["save"], ["save", "step"], ["stream"], ["steps"], ["step"]]:
                    yield {"requests": reqs, "preempt": {}, "adapter": ad}
        ctx.enum(cases(), body)
    else:
        if spec.get("segments"):
            # preemption-bounded random search: 2-5 preemptions at generated distances (segment lengths), focus mode
            triples = [["stream", "steps", "steps"], ["stream", "steps", "step"], ["steps", "stream", "steps"], ["stream", "stream", "steps"],
                       ["steps", "steps", "steps"], ["steps", "step", "stream"]]

            def to_plan(segs):
                plan, pos = {}, 0
                for gap, c in segs:
                    pos += gap
                    plan[str(pos)] = c
                return plan
            strat = st.fixed_dictionaries({"requests": st.sampled_from(triples), "focus": st.just(True),
                                           "preempt": st.lists(st.tuples(st.integers(1, 60), st.sampled_from([1, 2])), min_size=2, max_size=5).map(to_plan),
                                           "presteps": st.sampled_from([0, 3, 4, 5, 5])})
        elif spec.get("focus"):
            triples = [["stream", "steps", "steps"], ["stream", "steps", "step"], ["steps", "stream", "steps"], ["stream", "stream", "steps"],
                       ["steps", "steps", "steps"], ["stream", "step", "step"]]
            strat = st.fixed_dictionaries({"requests": st.sampled_from(triples), "focus": st.just(True),
                                           "choices": st.lists(st.sampled_from([0, 0, 0, 0, 0, 1, 2]), max_size=200),
                                           "presteps": st.sampled_from([0, 3, 4, 5])})
        else:
            strat = st.fixed_dictionaries({"requests": st.sampled_from(LISTS + ADAPTER_LISTS),
                                           "choices": st.lists(st.sampled_from([0, 0, 0, 0, 0, 0, 0, 0, 1, 2]), max_size=400),
                                           "presteps": st.sampled_from([0, 0, 3, 5]), "adapter": st.booleans()}).filter(
                lambda c: c["adapter"] or "save" not in c["requests"])
        ctx.hyp(strat, body, spec["n"])
