"""C13 - agent statistics equal the aggregates of the agent population.

Generator: populations (types x states x agents with Integer/Double/String properties) with a
script of state and property changes over time; selections of agents / states / properties /
aggregate types passed to run_scenarios in df, dict and json.
Oracle: aggregates recomputed (math.fsum, min, max, len) from snapshots of the agents taken at
every statistics collection.
"""
import json
import math

from hypothesis import strategies as st

from vf.runner import Violation

ID = "C13"
LEVEL = "exploration"
TECHNIQUE = "generated populations and change scripts (Hypothesis) vs aggregates recomputed from agent snapshots"
RULE = ("cases = 1-3 agent types x up to 4 states x 0-6 agents with Integer and Double properties (negative, zero, equal, "
        "distinct) plus a String property, a script of state/property changes and deletions (in act / end_round) over 2-6 steps, optionally three scenarios over two managers with different populations and run specs, and a selection of agents, states (also never-occurring ones), "
        "properties and aggregate types; Model.statistics() and the df/dict/json of run_scenarios are compared cell by cell with "
        "count / fsum / min / max / mean over the snapshot (0 where a cell is empty at that time). non-trivial = some cell holds "
        ">= 2 agents with different values of a property; distinct by case")
ASSUMPTIONS = [
    "all agents of one type carry the same property set (as agent factories produce)",
    "at least one requested state is non-empty at some recorded time in some scenario of the call",
    "total and mean are compared with relative tolerance 1e-9, count/min/max exactly",
]

STATES = ["s0", "s1", "s2", "s3"]
PTYPES = ["total", "mean", "max", "min"]


def _classes():
    from BPTK_Py import Agent, DataCollector, Model

    class Col(DataCollector):
        def __init__(self):
            super().__init__()
            self.snaps = {}

        def reset(self):
            super().reset()
            self.snaps = {}

        def collect_agent_statistics(self, time, agents):
            self.snaps[time] = [[a.agent_type, a.state, {k: v["value"] for k, v in a.properties.items()
                                                         if v["type"] in ("Integer", "Double")}] for a in agents]
            return super().collect_agent_statistics(time, agents)

    class Ag(Agent):
        def initialize(self):
            self.agent_type = self.properties["kind"]["value"]
            self.state = self.properties["init_state"]["value"]

        def act(self, time, round_no, step_no):
            for ch in self.model.script.get(str(self.model.gcount), []):
                if ch[0] != self.id:
                    continue
                if ch[1] == "state":
                    self.state = ch[2]
                elif ch[1] == "delete-self":
                    self.model.delete_agent(self.id)
                elif ch[1] == "prop":
                    self.set_property_value(ch[2], ch[3])

    class M(Model):
        def instantiate_model(self):
            self.__dict__.setdefault("script", {})
            self.__dict__.setdefault("gcount", 0)
            self.__dict__["specs"] = self.__dict__.get("specs", {})
            for ty in ("A", "B", "C"):
                self.register_agent_factory(ty, lambda agent_id, model, properties: Ag(agent_id, model, properties))

        def end_round(self, time, sim_round, step):
            for ch in self.script.get(str(self.gcount), []):
                if ch[1] == "delete-at-end" and self.agent(ch[0]) is not None:
                    self.delete_agent(ch[0])
            # the population as it is when the step ends (statistics are recorded right after this callback)
            self.__dict__.setdefault("snaps", {})[time] = [[a.agent_type, a.state, {k: v["value"] for k, v in a.properties.items()
                                                                                     if v["type"] in ("Integer", "Double")}] for a in self.agents]
            self.__dict__["gcount"] = self.gcount + 1

    return M, Ag, Col


def _agents_config(case):
    """one create_agents spec per agent (count 1) so that every agent can have its own values"""
    out = []
    for ag in case["agents"]:
        props = {"kind": {"type": "String", "value": ag["type"]}, "init_state": {"type": "String", "value": ag["state"]},
                 "label": {"type": "String", "value": "x"}}
        for pname, (ptype, val) in ag["props"].items():
            props[pname] = {"type": ptype, "value": val}
        out.append({"name": ag["type"], "count": 1, "properties": props})
    return out


def _agg(snap, ty, state, prop=None):
    vals = [a for a in snap if a[0] == ty and a[1] == state]
    if prop is None:
        return len(vals)
    xs = [a[2][prop] for a in vals if prop in a[2]]
    if not xs:
        return None
    tot = math.fsum(xs)
    return {"total": tot, "mean": tot / len(vals), "max": max(xs), "min": min(xs)}


def _close(a, b):
    return abs(float(a) - float(b)) <= 1e-9 * max(1.0, abs(float(a)), abs(float(b)))


def _variant(agents, which):
    """other populations derived from the generated one (different sizes and values)"""
    if which == 0:
        return agents
    out = []
    src = agents[::-1][:max(1, (len(agents) + 1) // 2)] if which == 1 else agents[:max(1, len(agents) - 1)]
    for ag in src:
        ag2 = json.loads(json.dumps(ag))
        ag2["props"]["x"][1] = ag2["props"]["x"][1] + which
        ag2["props"]["y"][1] = ag2["props"]["y"][1] * 2 + which
        out.append(ag2)
    if not any(a_["type"] == "A" for a_ in out):
        out.append(json.loads(json.dumps(next(a_ for a_ in agents if a_["type"] == "A"))))
    return out


def check_case(case):
    from BPTK_Py import SimultaneousScheduler, bptk

    M, Ag, Col = _classes()
    vs = []
    info = {"nontrivial": False}
    b = bptk()
    try:
        nsteps = case["nsteps"]
        targets = [("smS", "sc", 0)]
        if case.get("multi", False):
            targets += [("smS", "sc2", 1), ("smT", "sc", 2)]
        managers = sorted(set(t[0] for t in targets))
        for mgr in managers:
            base = M(name="c13", scheduler=SimultaneousScheduler(), data_collector=Col())
            base.instantiate_model()
            base.__dict__["script"] = case["script"]
            scen = {}
            for (m_, s_, which) in targets:
                if m_ == mgr:
                    rs = {"starttime": 1, "stoptime": nsteps, "dt": 1}
                    if case.get("runspec_variants"):
                        # the scenarios of one call need not share their run specs: a longer one and a finer one
                        rs = [rs, {"starttime": 1, "stoptime": nsteps + 2, "dt": 1}, {"starttime": 1, "stoptime": nsteps, "dt": 0.5}][which]
                    scen[s_] = {"runspecs": rs, "properties": {},
                                "agents": _agents_config({"agents": _variant(case["agents"], which)})}
            b.register_scenario_manager({mgr: {"type": "abm", "model": base, "scenarios": scen}})
        sel = case["select"]
        agents, props, ptypes = sel["agents"], sel["props"], sel["ptypes"]
        snaps_of = {}
        for (m_, s_, which) in targets:
            m = b.get_scenario(m_, s_)
            try:
                m.run()
            except Exception as e:
                vs.append(Violation("crash:run:" + type(e).__name__, repr(e)))
                return info, vs
            snaps = m.__dict__.get("snaps", {})
            snaps_of[(m_, s_)] = snaps
            stats = m.statistics()
            times = list(snaps.keys())
            tag = "" if (m_, s_) == ("smS", "sc") else ":%s/%s" % (m_, s_)
            if list(stats.keys()) != times:
                vs.append(Violation("statistics:times" + tag, "%s/%s: statistics keys %r, snapshots at %r" % (m_, s_, list(stats.keys()), times)))
            for t in times:
                snap = snaps[t]
                cells = sorted(set((a[0], a[1]) for a in snap))
                got_cells = sorted((ty, stt) for ty, d in stats.get(t, {}).items() for stt in d)
                if cells != got_cells:
                    vs.append(Violation("statistics:cells" + tag, "%s/%s t=%r cells %r expected %r" % (m_, s_, t, got_cells, cells)))
                    continue
                for ty, stt in cells:
                    rec = stats[t][ty][stt]
                    if rec["count"] != _agg(snap, ty, stt):
                        vs.append(Violation("statistics:count" + tag, "%s/%s t=%r %s/%s count %r expected %r" % (m_, s_, t, ty, stt, rec["count"], _agg(snap, ty, stt))))
                    pnames = sorted(set(k for a in snap if a[0] == ty and a[1] == stt for k in a[2]))
                    for p in pnames:
                        want = _agg(snap, ty, stt, p)
                        got = rec.get(p)
                        if got is None:
                            vs.append(Violation("statistics:missing-property" + tag, "t=%r %s/%s/%s missing" % (t, ty, stt, p)))
                            continue
                        xs = [a[2][p] for a in snap if a[0] == ty and a[1] == stt]
                        if len(set(xs)) > 1:
                            info["nontrivial"] = True
                        for k in PTYPES:
                            ok = (got[k] == want[k]) if k in ("max", "min") else _close(got[k], want[k])
                            if not ok:
                                vs.append(Violation("statistics:" + k + tag, "%s/%s t=%r %s/%s/%s %s=%r expected %r (values %r)" % (m_, s_, t, ty, stt, p, k, got[k], want[k], xs)))
        if vs:
            return info, _dedupe(vs)
        # --- run_scenarios in the three formats (all targets in one call) -------
        def occurring(key, ty):
            return sorted(set(a[1] for t in snaps_of[key] for a in snaps_of[key][t] if a[0] == ty))
        states = [s_ for s_ in sel["states"] if any(s_ in occurring((m_, sc_), ty) for (m_, sc_, w_) in targets for ty in agents)]
        info["states"] = states
        if not states:
            info["formats"] = "skipped"
            return info, vs
        for fmt in ("df", "dict", "json"):
            kw = dict(scenarios=sorted(set(t[1] for t in targets)), scenario_managers=managers, agents=agents, agent_states=states, return_format=fmt)
            if props:
                kw.update(agent_properties=props, agent_property_types=ptypes)
            try:
                res = b.run_scenarios(**kw)
            except Exception as e:
                vs.append(Violation("crash:run_scenarios:%s:%s" % (fmt, type(e).__name__), "%r select=%r states=%r targets=%r" % (e, sel, states, targets)))
                continue
            if res is None:
                vs.append(Violation("format:%s:none" % fmt, "run_scenarios returned None for select=%r states=%r" % (sel, states)))
                continue
            if fmt == "json":
                res = json.loads(res)
            for (m_, sc_, w_) in targets:
                snaps = snaps_of[(m_, sc_)]
                tag = "" if (m_, sc_) == ("smS", "sc") else ":%s/%s" % (m_, sc_)
                for ty in agents:
                    occ = occurring((m_, sc_), ty)
                    for stt in states:
                        for t in snaps:
                            snap = snaps[t]
                            if not props:
                                want = _agg(snap, ty, stt)
                                try:
                                    if fmt == "df":
                                        got = res["%s_%s_%s_%s" % (m_, sc_, ty, stt)][t]
                                    elif fmt == "dict":
                                        got = res[m_][sc_]["agents"][ty][stt][t]
                                    else:
                                        got = res[m_][sc_]["agents"][ty][stt][str(t)]
                                except Exception as e:
                                    vs.append(Violation("format:%s:count-missing%s" % (fmt, tag), "%s/%s %s/%s t=%r: %r" % (m_, sc_, ty, stt, t, e)))
                                    continue
                                if not (float(got) == float(want)):
                                    vs.append(Violation("format:%s:count%s" % (fmt, tag), "%s/%s %s/%s t=%r got %r expected %r" % (m_, sc_, ty, stt, t, got, want)))
                            else:
                                for p in props:
                                    want_all = _agg(snap, ty, stt, p)
                                    for k in ptypes:
                                        want = 0 if want_all is None else want_all[k]
                                        try:
                                            if fmt == "df":
                                                got = res["%s_%s_%s_%s_%s_%s" % (m_, sc_, ty, stt, p, k)][t]
                                            elif fmt == "dict":
                                                got = res[m_][sc_]["agents"][ty][stt]["properties"][p][k][t]
                                            else:
                                                got = res[m_][sc_]["agents"][ty][stt]["properties"][p][k][str(t)]
                                        except Exception as e:
                                            vs.append(Violation("format:%s:property-missing%s" % (fmt, tag), "%s/%s %s/%s/%s/%s t=%r: %r" % (m_, sc_, ty, stt, p, k, t, e)))
                                            continue
                                        if not _close(got, want):
                                            vs.append(Violation("format:%s:%s%s" % (fmt, k, tag), "%s/%s %s/%s/%s t=%r got %r expected %r" % (m_, sc_, ty, stt, p, t, got, want)))
    finally:
        b.destroy()
    return info, _dedupe(vs)


def _dedupe(vs):
    out = {}
    for v in vs:
        out.setdefault(v.signature, v)
    return list(out.values())


def _body(ctx):
    def body(case):
        info, vs = check_case(case)
        labels = ["props-selected" if case["select"]["props"] else "counts-only"] + (["three-scenarios-two-managers"] if case.get("multi") else []) + \
            (["different-run-specs"] if case.get("multi") and case.get("runspec_variants") else []) + \
            (["with-deletion"] if any(ch[1].startswith("delete") for v_ in case["script"].values() for ch in v_) else [])
        if info.get("formats") == "skipped":
            labels.append("formats-skipped(no common state)")
        ctx.case(case, nontrivial=info["nontrivial"], labels=labels, key=case)
        ctx.report(vs)
    return body


NUMS_I = [-3, -1, 0, 0, 1, 2, 2, 5, 10]
NUMS_D = [-2.5, -0.1, 0.0, 0.1, 0.3, 1.5, 1.5, 7.25, 100.0]


def case_strategy():
    @st.composite
    def build(draw):
        ntypes = draw(st.integers(1, 3))
        types = ["A", "B", "C"][:ntypes]
        nstates = draw(st.integers(1, 4))
        states = STATES[:nstates]
        agents = []
        for ty in types:
            for _ in range(draw(st.integers(0 if ty != "A" else 1, 6))):
                agents.append({"type": ty, "state": draw(st.sampled_from(states)),
                               "props": {"x": ["Integer", draw(st.sampled_from(NUMS_I))], "y": ["Double", draw(st.sampled_from(NUMS_D))]}})
        nsteps = draw(st.integers(2, 6))
        script = {}
        for _ in range(draw(st.integers(0, 8))):
            g = draw(st.integers(0, nsteps - 1))
            aid = draw(st.integers(0, max(0, len(agents) - 1)))
            ch = draw(st.one_of(
                st.tuples(st.just(aid), st.sampled_from(["delete-self", "delete-at-end"])).map(list),
                st.tuples(st.just(aid), st.just("state"), st.sampled_from(states)).map(list),
                st.tuples(st.just(aid), st.just("prop"), st.just("x"), st.sampled_from(NUMS_I)).map(list),
                st.tuples(st.just(aid), st.just("prop"), st.just("y"), st.sampled_from(NUMS_D)).map(list)))
            script.setdefault(str(g), []).append(ch)
        present = sorted(set(a["type"] for a in agents))
        sel_agents = draw(st.lists(st.sampled_from(present), min_size=1, max_size=len(present), unique=True))
        sel_states = draw(st.lists(st.sampled_from(states), min_size=1, max_size=nstates, unique=True))
        sel_props = draw(st.lists(st.sampled_from(["x", "y"]), min_size=0, max_size=2, unique=True))
        sel_pt = draw(st.lists(st.sampled_from(PTYPES), min_size=1, max_size=4, unique=True))
        return {"multi": draw(st.booleans()), "runspec_variants": draw(st.booleans()), "agents": agents, "nsteps": nsteps, "script": script,
                "select": {"agents": sel_agents, "states": sel_states, "props": sel_props, "ptypes": sel_pt}}
    return build()


def plan(tier):
    n = 250 if tier == "quick" else 2500
    return [{"n": n} for _ in range(16)]


def run_shard(spec, ctx):
    ctx.hyp(case_strategy(), _body(ctx), spec["n"])
