"""C04 - transpiled XMILE stock/flow dynamics are Euler-exact for any dt and match the DSL.

Generator: stock-and-flow structures shared by XMILE and the DSL (stocks with 0-3 inflows and
0-3 outflows, non-negative and bidirectional flows, auxiliaries, graphical functions with
xscale or explicit xpts, constants) x sim specs with decimal, binary and reciprocal dt.
Oracle: three-way - transpiled model vs independent Euler reference (vf.sdmodel.RefModel) vs
the same abstract model built with the SD DSL; plus a linear witness stock (inflow = 1) whose
value must be i*dt (exactly one integration step per grid interval).
"""
from decimal import Decimal

from hypothesis import strategies as st

from vf import expr as E
from vf import sdmodel as SM
from vf import xmile as X
from vf.runner import Violation

ID = "C04"
LEVEL = "translation_validation"
TECHNIQUE = "generated XMILE stock/flow documents (Hypothesis) compiled by the transpiler; per-program three-way differential: transpiled vs Euler reference vs DSL build"
RULE = ("programs = generated XMILE documents (1-3 stocks with 0-3 inflows/outflows, non-negative flows and biflows, auxiliaries, "
        "graphical functions, constants, a witness stock with inflow 1) x sim specs (dt in 0.1, 0.05, 0.2, 0.25, 0.125, 0.5, 1 and "
        "reciprocal 10, 4, 8, 5, 20; start 0, 1, 2.5); every variable on every grid point is compared with the Euler reference and "
        "with the DSL build of the same model (disagreements_checked = values compared). non-trivial = dt not exactly representable "
        "in binary and n >= 4, or a stock with >= 2 flows; distinct by document text")
ASSUMPTIONS = [
    "XMILE graphical function = clamped linear interpolation over (xpts or equally spaced xscale, ypts)",
    "non_negative flows are clamped at zero, other flows are bidirectional; stocks are not clamped",
    "plain identifier names (naming is C03's subject)",
    "values compared with relative tolerance 1e-9, or absolutely within 1e-13 * (largest magnitude in the trajectory) * (n+1) where sums cancel; ill-conditioned references are discarded",
]

DT_SPECS = [{"dt": "0.1"}, {"reciprocal": "10"}, {"dt": "0.05"}, {"dt": "0.2"}, {"dt": "0.25"}, {"dt": "0.125"}, {"dt": "1"},
            {"reciprocal": "4"}, {"reciprocal": "8"}, {"reciprocal": "5"}, {"reciprocal": "20"}, {"dt": "0.5"},
            # reciprocals without a finite decimal expansion, and small binary ones
            {"reciprocal": "3"}, {"reciprocal": "6"}, {"reciprocal": "7"}, {"reciprocal": "12"}, {"reciprocal": "512"}, {"reciprocal": "16"}]


def terminating(spec):
    """does dt have a finite decimal expansion (then the grid labels are decimal literals and compared exactly)?"""
    if "dt" in spec:
        return True
    n = int(spec["reciprocal"])
    for p in (2, 5):
        while n % p == 0:
            n //= p
    return n == 1


def dt_decimal(spec):
    if "dt" in spec:
        return Decimal(spec["dt"])
    return Decimal(1) / Decimal(spec["reciprocal"])


def to_abstract(case):
    """the shared structure as a vf.sdmodel abstract model"""
    dt = dt_decimal(case["dt_spec"])
    aux = []
    points = {}
    for a in case["aux"]:
        if a["kind"] == "gf":
            pts = gf_points(a)
            points[a["name"]] = pts
            aux.append({"kind": "converter", "name": a["name"], "eq": ["lookup", a["input"], a["name"]]})
        else:
            aux.append({"kind": a["kind"], "name": a["name"], "eq": a["eq"]})
    aux.append({"kind": "flow", "name": "one", "eq": ["num", 1.0]})
    stocks = []
    for s in case["stocks"] + [{"name": "w", "init": 0.0, "inflows": ["one"], "outflows": []}]:
        tree = None
        for f in s["inflows"]:
            tree = ["ref", f] if tree is None else ["bin", "+", tree, ["ref", f]]
        for f in s["outflows"]:
            tree = ["neg", ["ref", f]] if tree is None else ["bin", "-", tree, ["ref", f]]
        if tree is None:
            tree = ["num", 0.0]
        stocks.append({"name": s["name"], "init": s["init"], "eq": tree})
    return {"start": case["start"], "dt": str(dt), "n": case["n"], "constants": case["constants"], "points": points,
            "stocks": stocks, "aux": aux}


def gf_points(a):
    ys = a["ypts"]
    if a.get("xpts"):
        xs = a["xpts"]
    else:
        k = len(ys)
        xs = [a["xmin"] + (a["xmax"] - a["xmin"]) * i / (k - 1) for i in range(k)]
    return [[float(x), float(y)] for x, y in zip(xs, ys)]


def to_xmile(case):
    variables = []
    stl = X.Style()
    for c in case["constants"]:
        variables.append({"kind": "aux", "name": c["name"], "eqn": X.num_txt(c["value"])})
    for a in case["aux"]:
        if a["kind"] == "gf":
            v = {"kind": "aux", "name": a["name"], "eqn": X.print_eq(a["input"], stl), "gf": {"ypts": a["ypts"]}}
            if a.get("xpts"):
                v["gf"]["xpts"] = a["xpts"]
                v["gf"]["xscale_too"] = bool(a.get("xscale_too"))
            else:
                v["gf"]["xmin"], v["gf"]["xmax"] = a["xmin"], a["xmax"]
            variables.append(v)
        elif a["kind"] == "converter":
            variables.append({"kind": "aux", "name": a["name"], "eqn": X.print_eq(a["eq"], stl)})
        else:
            variables.append({"kind": "flow", "name": a["name"], "eqn": X.print_eq(a["eq"], stl), "non_negative": a["kind"] == "flow"})
    variables.append({"kind": "flow", "name": "one", "eqn": "1", "non_negative": True})
    for s in case["stocks"] + [{"name": "w", "init": 0.0, "inflows": ["one"], "outflows": []}]:
        init = s["init"]
        variables.append({"kind": "stock", "name": s["name"], "eqn": init[1] if isinstance(init, list) else X.num_txt(init),
                          "inflows": s["inflows"], "outflows": s["outflows"]})
    dt = dt_decimal(case["dt_spec"])
    stop = Decimal(case["start"]) + case["n"] * dt
    return X.document(variables, case["start"], str(stop), case["dt_spec"])


def check_case(case, with_dsl=True):
    info = {"status": "ok", "programs": 0, "comparisons": 0}
    vs = []
    abstract = to_abstract(case)
    try:
        ref = SM.RefModel(abstract, limit=1e9).run()
    except E.Fragile as e:
        info["status"] = "fragile"
        return info, vs
    grid = SM.grid(abstract)
    names = SM.element_names(abstract)
    scale = SM.model_scale(ref)
    xml = to_xmile(case)
    try:
        model, warns, code = X.compile_and_load(xml, ".")
    except Exception as e:
        vs.append(Violation("compile-crash:" + type(e).__name__, "compiling the document raised %r\n%s" % (e, xml)))
        return info, vs
    info["programs"] = 1
    dts = case["dt_spec"]
    dtkind = ("reciprocal" if "reciprocal" in dts else "plain") + ":" + ("binary" if str(dt_decimal(dts)) in ("1", "0.5", "0.25", "0.125") else ("decimal" if terminating(dts) else "non-terminating"))
    if abs(model.dt - float(dt_decimal(dts))) > 1e-12 or model.starttime != grid[0] or abs(model.stoptime - grid[-1]) > 1e-9:
        vs.append(Violation("simspecs:" + dtkind, "model has start=%r stop=%r dt=%r, document says start=%s n=%d dt=%r" % (model.starttime, model.stoptime, model.dt, case["start"], case["n"], dts)))
        return info, vs
    from BPTK_Py.util import timerange
    tr = timerange(model.starttime, model.stoptime, model.dt, exclusive=False)
    exact = terminating(dts)
    if (exact and tr != grid) or (not exact and (len(tr) != len(grid) or any(abs(a - b) > 1e-9 for a, b in zip(tr, grid)))):
        vs.append(Violation("grid:" + dtkind, "timerange of the transpiled model %r (%d points), expected %r (%d points)" % (tr[-3:], len(tr), grid[-3:], len(grid))))
        return info, vs
    eval_grid = grid if exact else tr  # for 1/3 etc. the model's own labels are used for evaluation
    if not exact:
        # ... and the reference reads time() off the same labels: 2/3 has no exact label, and a graphical function with a
        # knot there amplifies the last digits of the label
        try:
            rm = SM.RefModel(abstract, limit=1e9)
            rm.grid = [float(x) for x in tr]
            ref = rm.run()
            scale = SM.model_scale(ref)
        except E.Fragile:
            info["status"] = "fragile"
            return info, vs
    try:
        # a fresh instance of the transpiled model queried top-down (empty memo: t-dt chains down to the start)
        fresh = type(model)()
        for nm in names:
            for i in (len(grid) - 1, len(grid) // 2):
                got = fresh.equation(X.xkey(nm), eval_grid[i])
                info["comparisons"] += 1
                if not SM.values_agree(got, ref[nm][i], scale, case["n"]):
                    vs.append(Violation("xmile-topdown-vs-euler:%s" % dtkind,
                                        "fresh transpiled model: %s queried directly at t=%r (index %d of %d, dt=%r start=%s) is %r, Euler reference %r; model %r"
                                        % (nm, grid[i], i, case["n"], dts, case["start"], got, ref[nm][i], SM.sym_show(abstract))))
                    raise StopIteration
        for nm in names:
            for i, t in enumerate(eval_grid):
                got = model.equation(X.xkey(nm), t)
                info["comparisons"] += 1
                if not SM.values_agree(got, ref[nm][i], scale, case["n"]):
                    kind = "witness" if nm == "w" else ("stock" if any(s["name"] == nm for s in abstract["stocks"]) else
                                                       next((a["kind"] for a in case["aux"] if a["name"] == nm), "constant"))
                    vs.append(Violation("xmile-vs-euler:%s:%s" % (kind, dtkind),
                                        "%s at t=%r (index %d of %d, dt=%r start=%s) is %r in the transpiled model, Euler reference %r; model %r"
                                        % (nm, t, i, case["n"], dts, case["start"], got, ref[nm][i], SM.sym_show(abstract))))
                    raise StopIteration
    except StopIteration:
        return info, vs
    except RecursionError:
        info["status"] = "recursion"
        return info, []
    except Exception as e:
        vs.append(Violation("eval-crash:" + type(e).__name__, "evaluation raised %r; model %r" % (e, SM.sym_show(abstract))))
        return info, vs
    if with_dsl and exact:
        try:
            m, elems = SM.build_dsl(abstract, name="c04")
            for nm in names:
                for i, t in enumerate(grid):
                    got = elems[nm](t)
                    info["comparisons"] += 1
                    if not SM.values_agree(got, model.equation(X.xkey(nm), t), scale, case["n"]):
                        vs.append(Violation("xmile-vs-dsl:" + dtkind, "%s at t=%r: DSL %r, transpiled %r; model %r"
                                            % (nm, t, got, model.equation(X.xkey(nm), t), SM.sym_show(abstract))))
                        return info, vs
        except RecursionError:
            info["status"] = "recursion"
            return info, []
    return info, vs


def sf_strategy(max_n):
    @st.composite
    def build(draw):
        start = draw(st.sampled_from(["0", "1", "2.5", "0", "10"]))
        dt_spec = draw(st.sampled_from(DT_SPECS))
        n = draw(st.integers(1, max_n))
        nconst = draw(st.integers(1, 3))
        constants = [{"name": "k%d" % i, "value": draw(st.sampled_from([0.25, 0.5, 1.0, 1.5, 2.0, 3.0, 4.0, 0.1, 0.3, 5.0]))} for i in range(nconst)]
        nstock = draw(st.integers(1, 3))
        stock_names = ["s%d" % i for i in range(nstock)]
        aux = []

        def leaf(avail):
            opts = [st.sampled_from(stock_names).map(lambda nm: ["ref", nm]),
                    st.sampled_from([c["name"] for c in constants]).map(lambda nm: ["ref", nm]),
                    st.sampled_from(SM.NICE).map(lambda v: ["num", v]), st.just(["time"])]
            if avail:
                opts.append(st.sampled_from(avail).map(lambda nm: ["ref", nm]))
                opts.append(st.sampled_from(avail).map(lambda nm: ["ref", nm]))
            return st.one_of(*opts)

        def arith(avail, d):
            if d <= 0:
                return leaf(avail)
            sub = arith(avail, d - 1)
            return st.one_of(leaf(avail),
                             st.tuples(st.sampled_from(["+", "-", "*", "-"]), sub, sub).map(lambda x: ["bin", x[0], x[1], x[2]]),
                             st.tuples(sub, st.sampled_from([c["name"] for c in constants])).map(lambda x: ["bin", "/", x[0], ["ref", x[1]]]),
                             st.tuples(st.sampled_from(["min", "max"]), sub, sub).map(lambda x: ["call", x[0], [x[1], x[2]]]),
                             sub.map(lambda x: ["neg", x]))
        naux = draw(st.integers(2, 6))
        kinds = draw(st.lists(st.sampled_from(["converter", "flow", "biflow", "gf", "flow"]), min_size=naux, max_size=naux))
        if not any(k in ("flow", "biflow") for k in kinds):
            kinds[-1] = "flow"
        for i, kind in enumerate(kinds):
            avail = [a["name"] for a in aux]
            if kind == "gf":
                k = draw(st.integers(2, 5))
                ys = draw(st.lists(st.sampled_from([0.0, 0.5, 1.0, 2.0, 3.0, 5.0, -1.0, 10.0]), min_size=k, max_size=k))
                a = {"kind": "gf", "name": "g%d" % i, "input": draw(arith(avail, 1)), "ypts": ys}
                if draw(st.booleans()):
                    a["xpts"] = sorted(draw(st.lists(st.sampled_from([-2.0, 0.0, 0.5, 1.0, 2.0, 3.0, 5.0, 8.0, 10.0, 20.0]), min_size=k, max_size=k, unique=True)))
                    a["xscale_too"] = draw(st.booleans())
                else:
                    a["xmin"] = draw(st.sampled_from([0.0, -1.0, 1.0]))
                    a["xmax"] = a["xmin"] + draw(st.sampled_from([1.0, 2.0, 4.0, 10.0]))
                aux.append(a)
            else:
                aux.append({"kind": kind, "name": {"converter": "c", "flow": "f", "biflow": "b"}[kind] + str(i), "eq": draw(arith(avail, 2))})
        flows = [a["name"] for a in aux if a["kind"] in ("flow", "biflow")]
        stocks = []
        for sn in stock_names:
            ni = draw(st.integers(0, min(3, len(flows))))
            no = draw(st.integers(0 if ni else 1, min(3, len(flows))))
            stocks.append({"name": sn,
                           "init": draw(st.one_of(st.sampled_from([0.0, 1.0, 5.0, 10.0, 2.5, 100.0]),
                                                  st.sampled_from([c["name"] for c in constants]).map(lambda nm: ["ref", nm]))),
                           "inflows": draw(st.lists(st.sampled_from(flows), min_size=ni, max_size=ni, unique=True)),
                           "outflows": draw(st.lists(st.sampled_from(flows), min_size=no, max_size=no, unique=True))})
        return {"start": start, "dt_spec": dt_spec, "n": n, "constants": constants, "aux": aux, "stocks": stocks}
    return build()


def _body(ctx):
    def body(case):
        info, vs = check_case(case)
        if info["status"] != "ok":
            ctx.discard(info["status"])
            return
        ctx.extra["programs"] += info["programs"]
        ctx.extra["disagreements_checked"] += info["comparisons"]
        dt = dt_decimal(case["dt_spec"])
        binary = str(dt) in ("1", "0.5", "0.25", "0.125")
        if not terminating(case["dt_spec"]):
            binary = False
        nt = ((not binary) and case["n"] >= 4) or any(len(s["inflows"]) + len(s["outflows"]) >= 2 for s in case["stocks"])
        labels = ["dt:" + ("reciprocal" if "reciprocal" in case["dt_spec"] else "plain") + ":" + ("binary" if binary else "decimal")]
        if any(a["kind"] == "gf" for a in case["aux"]):
            labels.append("has:gf")
        ctx.case({"dt_spec": case["dt_spec"], "start": case["start"], "n": case["n"], "model": SM.sym_show(to_abstract(case))},
                 nontrivial=nt, labels=labels, key=to_xmile(case))
        ctx.report(vs)
    return body


def plan(tier):
    n = 150 if tier == "quick" else 1500
    mn = 24 if tier == "quick" else 120
    return [{"n": n, "max_n": mn} for _ in range(16)]


def run_shard(spec, ctx):
    ctx.extra["programs"] = 0
    ctx.extra["disagreements_checked"] = 0
    ctx.hyp(sf_strategy(spec["max_n"]), _body(ctx), spec["n"])
