"""C02 - SD DSL expressions keep the grouping of the Python expression that built them.

Generator: (a) bounded-exhaustive table of depth-2 trees (outer op x operand position x
inner op x leaf shapes), (b) random typed trees to depth 6 with drawn operand values.
Oracle: reference evaluation of the tree with ordinary python arithmetic (vf.expr.RefEval).
Outcome classes: equal / rejected (any exception) / different value (violation).
"""
import itertools

from hypothesis import strategies as st

from vf import expr as E
from vf.runner import Violation

ID = "C02"
LEVEL = "exploration"
TECHNIQUE = "bounded-exhaustive expression-tree table + random typed trees (Hypothesis) vs reference evaluator"
RULE = ("cases = expression trees over + - * / ** % unary-minus, comparisons, If/And/Or/Not, "
        "min/max/abs/sqrt/exp/round/sin/cos/tan/arctan and array aggregates, lowered with Python operators onto "
        "DSL elements and evaluated through a converter; depth-2 table enumerated exhaustively "
        "(outer op x position x inner op x leaf shape), random typed trees to depth 6 beyond it. "
        "non-trivial = tree has at least one compound operand AND at least one value assignment is well-conditioned "
        "AND the DSL accepted it (not rejected); distinct by canonical hash of the tree")
ASSUMPTIONS = [
    "reference semantics = Python arithmetic on the tree structure (bool counts as 0/1)",
    "ill-conditioned assignments (ties within 1e-6, |v|>1e12, complex, division by ~0) are discarded, not failed",
    "And/Or/Not/If-conditions are only generated over boolean-valued operands",
    "any exception at construction, assignment or evaluation counts as 'rejected'",
    "a bare boolean expression is not generated as the direct argument of sqrt/exp/sin/cos/tan/arctan (numpy evaluates "
    "ufuncs of bool in float16: a precision effect unrelated to grouping)",
    "random trees do not apply an arithmetic operator to two bare boolean expressions (with numpy-typed operands, e.g. an array aggregate inside the "
    "comparison, numpy's boolean algebra applies: + is or, * is and); boolean (op) number is generated",
]
EXHAUSTIVE_SCOPE = "depth-2 table: every (outer op, operand position, inner op, leaf shape) combination listed in c02.table()"

ASSIGNMENTS = [
    {"a": 7.0, "b": 3.0, "c": 2.0, "d": 5.0},
    {"a": 0.75, "b": 2.5, "c": 4.0, "d": 1.5},
    {"a": -3.0, "b": 0.5, "c": -1.25, "d": 6.0},
]
ARRAYS = {"v": [2.0, 5.0, 3.0], "m": [[1.0, 4.0], [2.5, 0.5]]}
NAMES = ["a", "b", "c", "d"]

NUM_OUTER = ([("bin", op) for op in E.BINOPS] + [("neg", None)] +
             [("call", f) for f in E.CALLS1 + E.CALLS2] + [("if", None)])
BOOL_OUTER = [("cmp", op) for op in E.CMPOPS] + [("and", None), ("or", None), ("not", None)]


def _positions(kind, op):
    """list of operand type per position: 'n' numeric, 'b' boolean, 'd' digits literal"""
    if kind in ("bin", "cmp"):
        return ["n", "n"]
    if kind == "neg":
        return ["n"]
    if kind == "not":
        return ["b"]
    if kind in ("and", "or"):
        return ["b", "b"]
    if kind == "if":
        return ["b", "n", "n"]
    if kind == "call":
        if op in E.CALLS1:
            return ["n"]
        if op == "round":
            return ["n", "d"]
        return ["n", "n"]
    raise ValueError(kind)


def _build(kind, op, args):
    if kind == "bin":
        return ["bin", op, args[0], args[1]]
    if kind == "cmp":
        return ["cmp", op, args[0], args[1]]
    if kind == "neg":
        return ["neg", args[0]]
    if kind == "not":
        return ["not", args[0]]
    if kind in ("and", "or"):
        return [kind, args[0], args[1]]
    if kind == "if":
        return ["if", args[0], args[1], args[2]]
    if kind == "call":
        return ["call", op, list(args)]
    raise ValueError(kind)


def _leaf_fill(types, shape, names):
    """fill positions with leaves. shape: 'ee' all elements, 'en' element then number, 'ne' number then element"""
    out = []
    ni = 0
    for i, ty in enumerate(types):
        if ty == "d":
            out.append(["num", 1])
            continue
        if ty == "b":
            out.append(["cmp", ">", ["ref", names[ni % len(names)]], ["ref", names[(ni + 1) % len(names)]]])
            ni += 2
            continue
        use_num = (shape == "en" and i == 1) or (shape == "ne" and i == 0)
        if use_num:
            out.append(["num", [2.0, 3, 0.5][i % 3]])
        else:
            out.append(["ref", names[ni % len(names)]])
            ni += 1
    return out


def _inner_trees(want, names):
    """all depth-1 trees of result type want ('n' numeric position accepts boolean trees too)"""
    outs = []
    kinds = NUM_OUTER + BOOL_OUTER if want == "n" else BOOL_OUTER
    for kind, op in kinds:
        types = _positions(kind, op)
        shapes = ["ee", "en", "ne"] if (len([t for t in types if t == "n"]) == 2 and kind != "if") else ["ee"]
        for shape in shapes:
            outs.append(_build(kind, op, _leaf_fill(types, shape, names)))
    for agg in (["agg", "sum", "v", None], ["agg", "prod", "v", None], ["agg", "mean", "v", None],
                ["agg", "sum", "m", None], ["agg", "rank", "v", 2], ["agg", "size", "v", None]):
        if want == "n":
            outs.append(agg)
    return outs


def table():
    """the depth-2 table"""
    trees = []
    for kind, op in NUM_OUTER + BOOL_OUTER:
        types = _positions(kind, op)
        for pos, ty in enumerate(types):
            if ty == "d":
                continue
            for inner in _inner_trees(ty, ["b", "c"]):
                if kind == "call" and op in E.CALLS1 and op != "abs" and E.is_bool_tree(inner):
                    continue  # numpy maps bool through float16: precision, not grouping (see ASSUMPTIONS)
                for other in ("e", "n"):
                    args = []
                    ok = True
                    for j, tj in enumerate(types):
                        if j == pos:
                            args.append(inner)
                        elif tj == "d":
                            args.append(["num", 1])
                        elif tj == "b":
                            args.append(["cmp", "<", ["ref", "a"], ["ref", "d"]])
                        elif other == "e":
                            args.append(["ref", "a" if j < pos else "d"])
                        else:
                            args.append(["num", 2.0 if j < pos else 3])
                    if other == "n" and all(tj in ("d", "b") for j, tj in enumerate(types) if j != pos):
                        ok = len(types) == 1 and False
                    if ok:
                        trees.append(_build(kind, op, args))
        # both operands compound (binary numeric operators and comparisons)
        if kind in ("bin", "cmp"):
            inn = [t for t in _inner_trees("n", ["a", "b"]) if t[0] in ("bin", "neg", "cmp")]
            inn2 = [t for t in _inner_trees("n", ["c", "d"]) if t[0] in ("bin", "neg", "cmp")]
            for l, r in itertools.product(inn, inn2):
                trees.append(_build(kind, op, [l, r]))
    # de-duplicate
    seen = set()
    out = []
    for t in trees:
        k = E.show(t)
        if k not in seen:
            seen.add(k)
            out.append(t)
    return out


# ---------------------------------------------------------------------------


def _make_model(values):
    from BPTK_Py import Model

    model = Model(starttime=0.0, stoptime=4.0, dt=1.0, name="c02")
    elems = {}
    for i, n in enumerate(NAMES):
        if i % 2 == 0:
            e = model.constant(n)
        else:
            e = model.converter(n)
        e.equation = values[n]
        elems[n] = e
    v = model.constant("v")
    v.setup_vector(len(ARRAYS["v"]), list(ARRAYS["v"]))
    m = model.converter("m")
    m.setup_matrix([len(ARRAYS["m"]), len(ARRAYS["m"][0])], [list(r) for r in ARRAYS["m"]])
    elems["v"] = v
    elems["m"] = m
    return model, elems


ARRAYS2 = {"v": [2.0, -5.0, 3.0], "m": [[1.0, 4.0], [6.0, 0.5]]}


def _dsl_inplace(tree, values1, values2, t=2.0, only=None):
    """build with values1, evaluate, then change the operand values *in place* (element equations and array
    members) to values2 / ARRAYS2 and evaluate again.  returns ('ok', v1, v2) or ('rejected', reason)"""
    try:
        model, elems = _make_model(values1)
        eq = E.lower_dsl(tree, elems, model)
        x = model.converter("x")
        x.equation = eq
        v1 = x(t)
        if only is not None:
            for n in only:
                elems[n].equation = values2[n]
            return "ok", v1, x(t)
        for n in NAMES:
            elems[n].equation = values2[n]
        for i, val in enumerate(ARRAYS2["v"]):
            elems["v"][i] = val
        for i, row in enumerate(ARRAYS2["m"]):
            for j, val in enumerate(row):
                elems["m"][i][j] = val
        v2 = x(t)
        return "ok", v1, v2
    except Exception as e:  # noqa
        return "rejected", type(e).__name__, None


def _dsl_shared(shared, trees, values, t=2.0):
    """one DSL object for the shared sub-expression, used by several equations"""
    try:
        model, elems = _make_model(values)
        k = E.lower_dsl(shared, elems, model)
        elems2 = dict(elems)
        elems2["__shared"] = k
        convs = []
        for i, tr in enumerate(trees):
            c = model.converter("x%d" % i)
            c.equation = E.lower_dsl(tr, elems2, model)
            convs.append(c)
        return "ok", [c(t) for c in convs]
    except Exception as e:  # noqa
        return "rejected", type(e).__name__


def _subst(tree, shared):
    if tree[0] == "ref" and tree[1] == "__shared":
        return shared
    if tree[0] == "call":
        return ["call", tree[1], [_subst(a, shared) for a in tree[2]]]
    if tree[0] in ("bin", "cmp"):
        return [tree[0], tree[1], _subst(tree[2], shared), _subst(tree[3], shared)]
    if tree[0] in ("neg", "not"):
        return [tree[0], _subst(tree[1], shared)]
    if tree[0] in ("and", "or"):
        return [tree[0], _subst(tree[1], shared), _subst(tree[2], shared)]
    if tree[0] == "if":
        return ["if", _subst(tree[1], shared), _subst(tree[2], shared), _subst(tree[3], shared)]
    return tree


def _dsl_value(tree, values, t=2.0):
    """returns ('ok', value) or ('rejected', reason)"""
    try:
        model, elems = _make_model(values)
        eq = E.lower_dsl(tree, elems, model)
        x = model.converter("x")
        x.equation = eq
        val = x(t)
        return "ok", val
    except Exception as e:  # noqa: any exception is a rejection
        return "rejected", type(e).__name__


def _subtrees_postorder(t):
    for c in E.children(t):
        yield from _subtrees_postorder(c)
    if E.children(t):
        yield t


def _signature(tree, values):
    """smallest sub-tree that already evaluates wrongly -> (outer, [child ops])"""
    for s in _subtrees_postorder(tree):
        try:
            ref = E.RefEval(values, time=2.0, dt=1.0, start=0.0, stop=4.0, arrays=ARRAYS).ev(s)
        except E.Fragile:
            continue
        kind, val = _dsl_value(s, values)
        if kind == "ok" and not E.close(val, ref):
            kids = ["_" if not (E.children(c) or c[0] == "agg") else E.op_name(c) for c in E.children(s)]
            return "misgroup:%s:[%s]" % (E.op_name(s), ",".join(kids))
    return "misgroup:whole-tree-only:%s" % E.op_name(tree)


def check_shared(case):
    """{"shared": subtree, "trees": [t1, t2, ...]}: the same DSL object is an operand of several equations"""
    info = {"compound": True, "conditioned": 0, "rejected": 0, "compared": 0}
    vs = []
    for values in (case.get("values") or ASSIGNMENTS):
        wants = []
        try:
            for tr in case["trees"]:
                wants.append(E.RefEval(values, time=2.0, dt=1.0, start=0.0, stop=4.0, arrays=ARRAYS).ev(_subst(tr, case["shared"])))
        except E.Fragile:
            continue
        info["conditioned"] += 1
        res = _dsl_shared(case["shared"], case["trees"], values)
        if res[0] == "rejected":
            info["rejected"] += 1
            info["reject_reason"] = res[1]
            continue
        info["compared"] += 1
        for i, (g, w) in enumerate(zip(res[1], wants)):
            if not E.close(g, w):
                vs.append(Violation("shared-operand:%s" % E.op_name(case["trees"][i]),
                                    "shared sub-expression k = %s used in %s with %s: equation #%d evaluates to %r, python value %r (all: %r vs %r)"
                                    % (E.show(case["shared"]), [E.show(t) for t in case["trees"]], values, i, g, w, res[1], wants)))
                return info, vs
    return info, vs


def check_case(case):
    if "shared" in case:
        return check_shared(case)
    tree = case["tree"]
    assigns = case.get("values") or ASSIGNMENTS
    info = {"compound": any(E.children(c) or c[0] == "agg" for c in E.children(tree)),
            "conditioned": 0, "rejected": 0, "compared": 0}
    vs = []
    for values in assigns:
        try:
            ref = E.RefEval(values, time=2.0, dt=1.0, start=0.0, stop=4.0, arrays=ARRAYS).ev(tree)
        except E.Fragile:
            continue
        info["conditioned"] += 1
        kind, val = _dsl_value(tree, values)
        if kind == "rejected":
            info["rejected"] += 1
            info["reject_reason"] = val
            continue
        info["compared"] += 1
        if not E.close(val, ref):
            sig = _signature(tree, values)
            vs.append(Violation(sig, "expr %s with %s: DSL value %r, python value %r" % (E.show(tree), values, val, ref)))
            break
    # the same equation must follow its operands when their values are changed in place
    if not vs and info["compared"] and len(assigns) >= 2 and E.refs(tree) | ({"agg"} if "agg" in repr(tree) else set()):
        v1s, v2s = assigns[0], assigns[1]
        try:
            w2 = E.RefEval(v2s, time=2.0, dt=1.0, start=0.0, stop=4.0, arrays=ARRAYS2).ev(tree)
            E.RefEval(v1s, time=2.0, dt=1.0, start=0.0, stop=4.0, arrays=ARRAYS).ev(tree)
        except E.Fragile:
            return info, vs
        res = _dsl_inplace(tree, v1s, v2s)
        if res[0] == "ok" and not E.close(res[2], w2):
            vs.append(Violation("stale-operand:%s" % E.op_name(tree),
                                "expr %s: after changing the operand values in place to %s / arrays %s it evaluates to %r, python value %r"
                                % (E.show(tree), v2s, ARRAYS2, res[2], w2)))
        # ... and when only converter operands get a new equation (no constant is touched, the target is not re-assigned)
        convs = [n for i, n in enumerate(NAMES) if i % 2 == 1]
        if not vs and E.refs(tree) & set(convs):
            mixed = {n: (v2s[n] if n in convs else v1s[n]) for n in NAMES}
            try:
                w3 = E.RefEval(mixed, time=2.0, dt=1.0, start=0.0, stop=4.0, arrays=ARRAYS).ev(tree)
            except E.Fragile:
                return info, vs
            res = _dsl_inplace(tree, v1s, mixed, only=convs)
            if res[0] == "ok" and not E.close(res[2], w3):
                vs.append(Violation("stale-operand:converter:%s" % E.op_name(tree),
                                    "expr %s: after giving the converter operands %r new equations (values now %s) it evaluates to %r, python value %r"
                                    % (E.show(tree), convs, mixed, res[2], w3)))
    return info, vs


def _body(ctx):
    def body(case):
        info, vs = check_case(case)
        if "shared" in case:
            if info["conditioned"] == 0:
                ctx.discard("ill-conditioned")
                return
            ctx.case({"shared": E.show(case["shared"]), "equations": [E.show(t) for t in case["trees"]],
                      "outcome": "violation" if vs else ("rejected" if not info["compared"] else "equal")},
                     nontrivial=info["compared"] > 0, labels=["shared-operand"], key=case)
            ctx.report(vs)
            return
        labels = ["outer:" + E.op_name(case["tree"])]
        if info["conditioned"] == 0:
            ctx.discard("ill-conditioned")
            return
        if info["rejected"] and not info["compared"]:
            labels.append("rejected:" + info.get("reject_reason", "?"))
        nt = info["compound"] and info["compared"] > 0
        ctx.case({"expr": E.show(case["tree"]), "values": case.get("values", "3 fixed assignments"),
                  "outcome": "violation" if vs else ("rejected" if not info["compared"] else "equal")},
                 nontrivial=nt, labels=labels, key=case["tree"])
        ctx.report(vs)
    return body


# ---------------------------------------------------------------------------
# random typed trees

NICE = [x * 0.25 for x in range(-32, 33) if x != 0] + [0.1, 0.3, 1.7, 9.0, 12.0]


def tree_strategy(max_depth):
    num_leaf = st.one_of(
        st.sampled_from(NAMES).map(lambda n: ["ref", n]),
        st.sampled_from(NAMES).map(lambda n: ["ref", n]),
        st.sampled_from([1, 2, 3, 0.5, 2.0, 4.0, 0.25, 10]).map(lambda v: ["num", v]),
        st.sampled_from([["agg", "sum", "v", None], ["agg", "prod", "v", None], ["agg", "mean", "m", None],
                         ["agg", "median", "v", None], ["agg", "stddev", "v", None], ["agg", "size", "v", None],
                         ["agg", "rank", "v", 1], ["agg", "rank", "m", 3], ["time"]]),
    )

    def num(d):
        if d <= 0:
            return num_leaf
        sub = st.deferred(lambda: num(d - 1))
        subb = st.deferred(lambda: boolean(d - 1))
        return st.one_of(
            num_leaf,
            st.tuples(st.sampled_from(E.BINOPS), sub, sub).filter(_not_two_booleans).map(lambda x: ["bin", x[0], x[1], x[2]]),
            st.tuples(st.sampled_from(["+", "-", "*", "/", "-", "-"]), sub, sub).filter(_not_two_booleans).map(lambda x: ["bin", x[0], x[1], x[2]]),
            sub.map(lambda x: ["neg", x]),
            st.tuples(st.sampled_from(E.CALLS1), sub.filter(lambda x: not _may_be_bool(x))).map(lambda x: ["call", x[0], [x[1]]]),
            st.tuples(st.sampled_from(["min", "max"]), sub, sub).map(lambda x: ["call", x[0], [x[1], x[2]]]),
            st.tuples(sub, st.sampled_from([0, 1, 2])).map(lambda x: ["call", "round", [x[0], ["num", x[1]]]]),
            st.tuples(subb, sub, sub).map(lambda x: ["if", x[0], x[1], x[2]]),
            subb,  # boolean used as a number
        )

    def boolean(d):
        sub = st.deferred(lambda: num(max(d - 1, 0)))
        base = st.tuples(st.sampled_from(E.CMPOPS), sub, sub).map(lambda x: ["cmp", x[0], x[1], x[2]])
        if d <= 0:
            return base
        subb = st.deferred(lambda: boolean(d - 1))
        return st.one_of(
            base,
            st.tuples(st.sampled_from(["and", "or"]), subb, subb).map(lambda x: [x[0], x[1], x[2]]),
            subb.map(lambda x: ["not", x]),
        )

    return num(max_depth)


def _may_be_bool(t):
    """the value of the tree can be a bare boolean: a comparison/And/Or/Not, or an If / min / max that hands one through"""
    if E.is_bool_tree(t):
        return True
    if t[0] == "if":
        return _may_be_bool(t[2]) or _may_be_bool(t[3])
    if t[0] == "call" and t[1] in ("min", "max"):
        return any(_may_be_bool(a) for a in t[2])
    return False


def _not_two_booleans(x):
    """numpy's boolean algebra (+ is or, * is and, - is an error) applies when both operands of an arithmetic operator are bare
    comparison results of numpy type: a typing effect, not a grouping one (see ASSUMPTIONS)"""
    return not (_may_be_bool(x[1]) and _may_be_bool(x[2]))


def case_strategy(max_depth):
    vals = st.fixed_dictionaries({n: st.sampled_from(NICE) for n in NAMES})
    return st.fixed_dictionaries({"tree": tree_strategy(max_depth), "values": st.lists(vals, min_size=2, max_size=2)})


def shared_strategy():
    leaf = st.one_of(st.sampled_from(NAMES).map(lambda n: ["ref", n]), st.sampled_from([2, 3.0, 0.5]).map(lambda v: ["num", v]))
    k = st.just(["ref", "__shared"])
    shared = st.one_of(
        st.tuples(st.sampled_from(["*", "+", "-", "/"]), leaf, leaf).map(lambda x: ["bin", x[0], x[1], x[2]]),
        st.sampled_from(NAMES).map(lambda n: ["neg", ["ref", n]]),
        st.tuples(st.sampled_from([2, 3.0, 0.5, 4]), st.sampled_from(NAMES)).map(lambda x: ["bin", "*", ["num", x[0]], ["ref", x[1]]]),
        st.tuples(st.sampled_from(["min", "max"]), leaf, leaf).map(lambda x: ["call", x[0], [x[1], x[2]]]))
    use = st.one_of(
        k.map(lambda x: ["neg", x]), k,
        st.tuples(st.sampled_from(["+", "-", "*", "/"]), k, leaf).map(lambda x: ["bin", x[0], x[1], x[2]]),
        st.tuples(st.sampled_from(["+", "-", "*"]), leaf, k).map(lambda x: ["bin", x[0], x[1], x[2]]),
        st.tuples(st.sampled_from(["-", "+"]), k, k.map(lambda x: ["neg", x])).map(lambda x: ["bin", x[0], x[1], x[2]]),
        st.tuples(st.sampled_from(["min", "max"]), k.map(lambda x: ["neg", x]), k).map(lambda x: ["call", x[0], [x[1], x[2]]]),
        k.map(lambda x: ["call", "abs", [x]]))
    vals = st.fixed_dictionaries({n: st.sampled_from(NICE) for n in NAMES})
    return st.fixed_dictionaries({"shared": shared, "trees": st.lists(use, min_size=2, max_size=3), "values": st.lists(vals, min_size=2, max_size=2)})


def plan(tier):
    n_rand = 250 if tier == "quick" else 4000
    specs = [{"kind": "table", "part": i, "of": 8} for i in range(8)]
    specs += [{"kind": "random", "n": n_rand, "depth": 3 + (i % 4)} for i in range(8)]
    specs += [{"kind": "shared", "n": n_rand} for i in range(2)]
    return specs


def run_shard(spec, ctx):
    body = _body(ctx)
    if spec["kind"] == "table":
        trees = table()
        mine = [{"tree": t} for i, t in enumerate(trees) if i % spec["of"] == spec["part"]]
        ctx.extra["table_size"] = len(mine)
        ctx.enum(mine, body)
        ctx.exhaustive = True
    elif spec["kind"] == "shared":
        ctx.hyp(shared_strategy(), body, spec["n"])
    else:
        ctx.hyp(case_strategy(spec["depth"]), body, spec["n"])
