"""C06 - scenarios are isolated from each other and from the model they were created from.

Generator: histories (Hypothesis) over one base DSL model, two scenario managers registered from
the same model object and up to three scenarios each: register, run, session with settings and
per-step settings, REST /run with settings, direct edits of a scenario's constants/points,
cache resets, direct evaluation of the base model.
Oracle: shadow map scenario -> effective settings; every read of a scenario (and of the base model)
must equal the Euler reference of the base abstract model carrying exactly that scenario's settings.
"""
import copy
import json

from hypothesis import strategies as st

from vf import expr as E
from vf import sdmodel as SM
from vf.props import c04
from vf.runner import Violation

ID = "C06"
LEVEL = "exploration"
TECHNIQUE = "generated operation histories (Hypothesis) over several scenarios/managers sharing a base model vs per-scenario Euler reference (shadow settings map)"
RULE = ("cases = (base stock/flow model with graphical functions, list of ops in {register scenario, run, session [begin settings, "
        "steps, per-step settings], REST /run with settings (constants, points and partial run specs incl. start 0), registration with run specs, "
        "edit scenario constants/points, reset cache, evaluate base model}); after "
        "each read the scenario's values must equal the reference with exactly its own settings on its own time grid, and a final sweep reads every scenario "
        "and the base model. non-trivial = a write to scenario X is followed by a read of a scenario Y != X or of the base model; "
        "distinct by case")
ASSUMPTIONS = [
    "a scenario that received per-step settings is 'dirty': its own later results are not asserted (persistence of step settings on the same scenario is not a leak), it still acts as a writer",
    "manager names are never reused with a different model (ScenarioManagerSd documents that re-registration keeps the old model)",
    "sessions are started with the scenario's own start time and dt; scenarios that carry run specs of their own are read by batch runs and REST /run only",
    "generated run specs are completed by a stop time when the grid would otherwise be empty or ragged (start >= stop, (stop-start)/dt not integral)",
    "a direct edit of scenario.constants / scenario.points is followed by reset_scenario_cache (as the REST /run handler does)",
]

MANAGERS = ["smA", "smB"]
SCENARIOS = ["sc0", "sc1", "sc2"]


def _eff(shadow, key):
    s = shadow[key]
    return s["constants"], {k: (json.loads(v) if isinstance(v, str) else v) for k, v in s["points"].items()}


def _with_base(base, settings):
    """effective registration settings: the manager's base values unless the scenario overrides them"""
    c = dict(base.get("constants", {}))
    c.update(settings.get("constants", {}))
    p = dict(base.get("points", {}))
    p.update(settings.get("points", {}))
    return c, p


def _abs_for(abstract, rs):
    """the abstract model on the run specs a scenario carries (missing ones are the model's)"""
    from decimal import Decimal
    if not rs:
        return abstract
    start = Decimal(str(rs["starttime"])) if "starttime" in rs else Decimal(abstract["start"])
    dt = Decimal(str(rs["dt"])) if "dt" in rs else Decimal(abstract["dt"])
    stop = Decimal(str(rs["stoptime"])) if "stoptime" in rs else Decimal(abstract["start"]) + abstract["n"] * Decimal(abstract["dt"])
    a = dict(abstract)
    a["start"], a["dt"], a["n"] = str(start.normalize() + 0), str(dt), int((stop - start) / dt)
    return a


def _norm_rs(abstract, cur, new):
    """run specs actually sent: the generated partial ones, completed by a stop time when the grid would be empty or ragged"""
    from decimal import Decimal
    out = dict(new)
    merged = dict(cur)
    merged.update(out)
    a = _abs_for(abstract, merged) if True else None
    start, dt = Decimal(a["start"]), Decimal(a["dt"])
    stop = Decimal(str(merged["stoptime"])) if "stoptime" in merged else Decimal(abstract["start"]) + abstract["n"] * Decimal(abstract["dt"])
    if stop <= start or (stop - start) / dt != int((stop - start) / dt):
        out["stoptime"] = float(start + 3)
    return out


def check_case(case):
    from BPTK_Py import BptkServer, bptk

    info = {"status": "ok", "nontrivial": False}
    vs = []
    abstract = c04.to_abstract(case["model"])
    names = SM.element_names(abstract)
    grid = SM.grid(abstract)
    try:
        base_ref = SM.RefModel(abstract, limit=1e9).run()
    except E.Fragile:
        info["status"] = "fragile"
        return info, vs
    scale0 = SM.model_scale(base_ref)
    base_model, base_elems = SM.build_dsl(abstract, name="c06")
    b = bptk()
    app = BptkServer(__name__, bptk_factory=lambda: b)
    client = app.test_client()
    shadow = {}  # (m, s) -> {"constants":{}, "points":{}, "dirty":bool}
    writes = []  # keys written so far
    refcache = {}

    def ref_for(key):
        c, p = _eff(shadow, key)
        rs = shadow[key].get("rs", {})
        k = json.dumps([c, p, rs], sort_keys=True)
        if k not in refcache:
            refcache[k] = SM.RefModel(_abs_for(abstract, rs), constants=c, points=p, limit=1e9).run()
        return refcache[k]

    def grid_for(key):
        return grid if key is None or not shadow[key].get("rs") else SM.grid(_abs_for(abstract, shadow[key]["rs"]))

    def compare(what, key, got, opno, op):
        """got: name -> list aligned with grid"""
        try:
            ref = base_ref if key is None else ref_for(key)
        except E.Fragile:
            return True
        scale = SM.model_scale(ref)
        grid = grid_for(key)
        if any(w != key for w in writes):
            info["nontrivial"] = True
        for nm in names:
            vals = got[nm]
            if len(vals) != len(grid):
                vs.append(Violation("grid:" + what, "op #%d %r: %s has %d values, expected %d" % (opno, op, nm, len(vals), len(grid))))
                return False
            for i, (g, w) in enumerate(zip(vals, ref[nm])):
                if not SM.values_agree(g, w, scale, abstract["n"]):
                    other = [w_ for w_ in writes if w_ != key]
                    via = sorted(set(lastwrite.get(w_, "?") for w_ in other))
                    vs.append(Violation("leak:%s:after-%s" % ("base-model" if key is None else "scenario", "+".join(via) if via else "no-foreign-write"),
                                        "op #%d %r: %s %s(%r)=%r but a fresh model with exactly its settings %r gives %r; foreign writes so far: %r; model %r"
                                        % (opno, op, "base model" if key is None else "scenario %s/%s" % key, nm, grid[i], g,
                                           None if key is None else shadow[key], w, [(k_, lastwrite.get(k_)) for k_ in other], SM.sym_show(abstract))))
                    return False
        return True

    lastwrite = {}

    def check_step(res, keys, idx, opno, op):
        """a session step result of scenarios that have not received per-step settings equals the reference at that grid index"""
        if not isinstance(res, dict) or "msg" in res or idx >= len(grid):
            return True
        for key in keys:
            if key not in shadow or shadow[key]["dirty"] or shadow[key].get("rs"):
                continue
            m_, s_ = key
            try:
                ref = ref_for(key)
            except E.Fragile:
                continue
            cell = res.get(m_, {}).get(s_)
            if cell is None:
                continue
            scale = SM.model_scale(ref)
            for nm in names:
                if nm not in cell:
                    continue
                (t_, v_), = cell[nm].items()
                if float(t_) != grid[idx] or not SM.values_agree(float(v_), ref[nm][idx], scale, abstract["n"]):
                    vs.append(Violation("session-step:%s" % ("after-" + lastwrite.get(key, "no-write")),
                                        "op #%d %r: session step %d of scenario %s/%s reports %s(%r)=%r, a fresh model with its settings %r gives %s(%r)=%r"
                                        % (opno, op, idx, m_, s_, nm, t_, v_, shadow[key], nm, grid[idx], ref[nm][idx])))
                    return False
        return True

    def read_scenario(key, opno, op):
        m, s = key
        if shadow[key]["dirty"]:
            return True
        df = b.run_scenarios(scenarios=[s], scenario_managers=[m], equations=names, return_format="df")
        if df is None:
            vs.append(Violation("no-result", "op #%d %r: run_scenarios returned None for %r" % (opno, op, key)))
            return False
        got = {nm: [float(x) for x in df[nm]] for nm in names}
        return compare("run", key, got, opno, op)

    def read_base(opno, op):
        got = {nm: [base_elems[nm](t) for t in grid] for nm in names}
        return compare("base", None, got, opno, op)

    try:
        bases = case.get("bases", {})
        for m in MANAGERS:
            mgr = {"model": base_model}
            if bases.get(m, {}).get("constants"):
                mgr["base_constants"] = json.loads(json.dumps(bases[m]["constants"]))
            if bases.get(m, {}).get("points"):
                mgr["base_points"] = json.loads(json.dumps(bases[m]["points"]))
            b.register_scenario_manager({m: mgr})
        for opno, op in enumerate(case["ops"]):
            kind = op[0]
            try:
                if kind == "register":
                    _, m, s, settings = op
                    key = (m, s)
                    if key in shadow:
                        continue
                    settings = dict(settings)
                    if "runspecs" in settings:
                        settings["runspecs"] = _norm_rs(abstract, {}, settings["runspecs"])
                    b.register_scenarios({s: json.loads(json.dumps(settings))}, m)
                    ec, ep = _with_base(bases.get(m, {}), settings)
                    shadow[key] = {"constants": ec, "points": ep, "dirty": False, "rs": dict(settings.get("runspecs", {}))}
                    if shadow[key]["rs"]:
                        info["runspecs"] = True
                    if settings:
                        writes.append(key)
                        lastwrite[key] = "register"
                    continue
                if kind == "base":
                    if not read_base(opno, op):
                        break
                    continue
                if kind == "msession":
                    _, mgrs, scns, begin, steps = op
                    keys = [(m_, s_) for m_ in mgrs for s_ in scns if (m_, s_) in shadow]
                    if not keys or any(shadow[k_].get("rs") for k_ in keys):
                        # a session has one start time and dt; scenarios that carry their own run specs are read by batch runs only
                        continue
                    b.begin_session(scenarios=list(scns), scenario_managers=list(mgrs), equations=names, settings=json.loads(json.dumps(begin)),
                                    starttime=grid[0], dt=float(abstract["dt"]))
                    for k_ in keys:
                        st0 = begin.get(k_[0], {}).get(k_[1])
                        if st0:
                            shadow[k_]["constants"].update(st0.get("constants", {}))
                            shadow[k_]["points"].update(st0.get("points", {}))
                            writes.append(k_)
                            lastwrite[k_] = "begin-session-settings(multi-manager)"
                    ok_ = True
                    for si, st_ in enumerate(steps):
                        if st_:
                            for m_, d_ in st_.items():
                                for s_ in d_:
                                    if (m_, s_) in shadow:
                                        shadow[(m_, s_)]["dirty"] = True
                                        writes.append((m_, s_))
                                        lastwrite[(m_, s_)] = "step-settings(multi-manager)"
                            res_ = b.run_step(settings=json.loads(json.dumps(st_)))
                        else:
                            res_ = b.run_step()
                        if not check_step(res_, keys, si, opno, op):
                            ok_ = False
                            break
                    b.end_session()
                    if not ok_:
                        break
                    continue
                key = (op[1], op[2])
                if key not in shadow:
                    continue
                m, s = key
                if kind == "run":
                    if not read_scenario(key, opno, op):
                        break
                elif kind == "reset":
                    b.reset_scenario_cache(scenario_manager=m, scenario=s)
                elif kind == "edit":
                    _, _, _, what, name, value = op
                    sc = b.get_scenario(m, s)
                    getattr(sc, what)[name] = json.loads(json.dumps(value))
                    # documented usage: after editing a scenario object its cache has to be reset
                    b.reset_scenario_cache(scenario_manager=m, scenario=s)
                    shadow[key][what][name] = value
                    writes.append(key)
                    lastwrite[key] = "edit-" + what
                elif kind == "rest_run":
                    settings = dict(op[3])
                    if "runspecs" in settings:
                        settings["runspecs"] = _norm_rs(abstract, shadow[key]["rs"], settings["runspecs"])
                        shadow[key]["rs"].update(settings["runspecs"])
                        info["runspecs"] = True
                    resp = client.post("/run", json={"scenario_managers": [m], "scenarios": [s], "equations": names,
                                                     "settings": {m: {s: settings}}})
                    shadow[key]["constants"].update(settings.get("constants", {}))
                    shadow[key]["points"].update(settings.get("points", {}))
                    writes.append(key)
                    lastwrite[key] = "rest-run-settings" + ("+runspecs" if "runspecs" in settings else "")
                    if resp.status_code == 200 and not shadow[key]["dirty"]:
                        res = json.loads(resp.data)
                        got = {nm: [float(v) for v in res[m][s]["equations"][nm].values()] for nm in names}
                        if not compare("rest", key, got, opno, op):
                            break
                elif kind == "session":
                    _, _, _, settings, steps = op
                    if shadow[key].get("rs"):
                        continue
                    b.begin_session(scenarios=[s], scenario_managers=[m], equations=names, settings={m: {s: json.loads(json.dumps(settings))}},
                                    starttime=grid[0], dt=float(abstract["dt"]))
                    shadow[key]["constants"].update(settings.get("constants", {}))
                    shadow[key]["points"].update(settings.get("points", {}))
                    if settings:
                        writes.append(key)
                        lastwrite[key] = "begin-session-settings"
                    ok_ = True
                    for si, st_ in enumerate(steps):
                        if st_:
                            shadow[key]["dirty"] = True
                            writes.append(key)
                            lastwrite[key] = "step-settings-" + "+".join(sorted(st_.keys()))
                            res_ = b.run_step(settings={m: {s: json.loads(json.dumps(st_))}})
                        else:
                            res_ = b.run_step()
                        if not check_step(res_, [key], si, opno, op):
                            ok_ = False
                            break
                    b.end_session()
                    if not ok_:
                        break
            except Exception as e:
                vs.append(Violation("crash:%s:%s" % (kind, type(e).__name__), "op #%d %r raised %r" % (opno, op, e)))
                break
        if not vs:
            # final sweep
            for key in list(shadow):
                if not read_scenario(key, len(case["ops"]), ["final-sweep", key[0], key[1]]):
                    break
            if not vs:
                read_base(len(case["ops"]), ["final-sweep-base"])
    finally:
        b.destroy()
    return info, vs


def case_strategy():
    @st.composite
    def build(draw):
        model = draw(c04.sf_strategy(6))
        if not any(a["kind"] == "gf" for a in model["aux"]):
            model["aux"].insert(0, {"kind": "gf", "name": "g99", "input": ["time"], "ypts": [0.0, 2.0, 1.0], "xmin": 0.0, "xmax": 4.0})
            fl = next(a for a in model["aux"] if a["kind"] in ("flow", "biflow"))
            fl["eq"] = ["bin", "+", fl["eq"], ["ref", "g99"]]
        model["dt_spec"] = draw(st.sampled_from([{"dt": "1"}, {"dt": "0.5"}, {"dt": "0.25"}]))
        model["start"] = draw(st.sampled_from(["0", "1"]))
        model["n"] = draw(st.integers(3, 6))
        consts = [c["name"] for c in model["constants"]]
        gfs = [a["name"] for a in model["aux"] if a["kind"] == "gf"]

        def settings(allow_empty=True):
            out = {}
            what = draw(st.sampled_from(["c", "p", "cp", "c", "p"] + (["none"] if allow_empty else [])))
            if "c" in what:
                out["constants"] = {draw(st.sampled_from(consts)): draw(st.sampled_from([0.5, 1.0, 2.0, 3.0, 7.0]))}
            if "p" in what:
                k = draw(st.integers(2, 3))
                xs = sorted(draw(st.lists(st.sampled_from([-1.0, 0.0, 1.0, 2.0, 4.0, 8.0]), min_size=k, max_size=k, unique=True)))
                out["points"] = {draw(st.sampled_from(gfs)): [[x, draw(st.sampled_from([0.0, 1.0, 3.0, 5.0, -2.0]))] for x in xs]}
            return out

        def runspecs():
            which = draw(st.sampled_from([["starttime"], ["stoptime"], ["dt"], ["starttime", "stoptime"], ["starttime", "stoptime", "dt"], ["starttime", "dt"]]))
            out = {}
            if "starttime" in which:
                out["starttime"] = draw(st.sampled_from([0, 0.0, 1.0, 2.0, 0]))
            if "stoptime" in which:
                out["stoptime"] = float(out.get("starttime", int(model["start"])) + draw(st.integers(2, 5)))
            if "dt" in which:
                out["dt"] = draw(st.sampled_from([1.0, 0.5, 0.25]))
            return out
        ms = st.sampled_from(MANAGERS)
        ss = st.sampled_from(SCENARIOS)
        bases = {m: (settings() if draw(st.booleans()) else {}) for m in MANAGERS}
        ops = []
        # always start with two scenarios
        ops.append(["register", "smA", "sc0", settings()])
        ops.append(["register", draw(ms), "sc1", settings()])
        for _ in range(draw(st.integers(2, 10))):
            k = draw(st.sampled_from(["register", "run", "run", "session", "rest_run", "edit", "reset", "base", "session", "msession", "msession"]))
            if k == "register":
                st_ = settings()
                if draw(st.integers(0, 3)) == 0:
                    st_["runspecs"] = runspecs()
                ops.append(["register", draw(ms), draw(ss), st_])
            elif k == "run":
                ops.append(["run", draw(ms), draw(ss)])
            elif k == "reset":
                ops.append(["reset", draw(ms), draw(ss)])
            elif k == "base":
                ops.append(["base"])
            elif k == "edit":
                s_ = settings(False)
                what = "constants" if "constants" in s_ else "points"
                name, value = list(s_[what].items())[0]
                ops.append(["edit", draw(ms), draw(ss), what, name, value])
            elif k == "msession":
                mgrs = draw(st.sampled_from([["smA", "smB"], ["smA", "smB"], ["smB"], ["smA"]]))
                scns = draw(st.lists(ss, min_size=1, max_size=3, unique=True))
                begin = {}
                for m_ in mgrs:
                    for s_ in scns:
                        if draw(st.integers(0, 2)) == 0:
                            begin.setdefault(m_, {})[s_] = settings(False)
                steps = []
                for _i in range(draw(st.integers(1, 3))):
                    steps.append({draw(st.sampled_from(mgrs)): {draw(st.sampled_from(scns)): settings(False)}} if draw(st.integers(0, 3)) == 0 else {})
                ops.append(["msession", mgrs, scns, begin, steps])
            elif k == "rest_run":
                st_ = settings(False)
                if draw(st.integers(0, 2)) == 0:
                    st_["runspecs"] = runspecs()
                ops.append(["rest_run", draw(ms), draw(ss), st_])
            else:
                nsteps = draw(st.integers(1, 4))
                steps = [(settings(False) if draw(st.integers(0, 2)) == 0 else {}) for _ in range(nsteps)]
                ops.append(["session", draw(ms), draw(ss), settings(), steps])
        return {"model": model, "ops": ops, "bases": bases}
    return build()


def _body(ctx):
    def body(case):
        info, vs = check_case(case)
        if info["status"] != "ok":
            ctx.discard(info["status"])
            return
        kinds = sorted(set(op[0] for op in case["ops"]))
        ctx.case({"ops": case["ops"], "model": SM.sym_show(c04.to_abstract(case["model"]))}, nontrivial=info["nontrivial"],
                 labels=["op:" + k for k in kinds] + (["runspecs-written"] if info.get("runspecs") else []), key=case)
        ctx.report(vs)
    return body


def plan(tier):
    n = 80 if tier == "quick" else 800
    return [{"n": n} for _ in range(16)]


def run_shard(spec, ctx):
    ctx.hyp(case_strategy(), _body(ctx), spec["n"])
