"""C08 - memoised results are never stale or ambiguous.

Part A (histories): generated sequences of edit / evaluate / reset operations on a DSL model
(equations, stock initial values, constants, cache resets, repeated and re-ordered runs);
oracle = the Euler reference (vf.sdmodel.RefModel) on the *current* abstract definitions.
Part B (schedules): SdSimulation.start with a stochastic converter x, dependants y = x*1 and a
stock fed by x; the per-equation worker threads run under the deterministic line-level
scheduler (vf.sched); oracle = within one run each (element, time) has a single value:
y[t] == x[t], s[t+dt] == s[t] + dt*x[t], memo == reported value.
Part C (stochastic, single thread): the same model plus z = delay(x, k*dt) on decimal grids, read in generated orders
through Element.__call__ / Model.equation / Model.memoize; same single-value oracle.
"""
import itertools

from hypothesis import strategies as st

from vf import expr as E
from vf import sched as SC
from vf import sdmodel as SM
from vf.runner import Violation

ID = "C08"
LEVEL = "exploration"
TECHNIQUE = ("generated edit/evaluate histories (Hypothesis) vs Euler reference on current definitions; generated and "
             "preemption-bounded-exhaustive thread schedules under a deterministic line-level scheduler")
RULE = ("part A: cases = (model, list of ops in {eval element at t [through Element.__call__, Model.equation or Model.memoize], eval all, set aux equation, set stock initial value, set "
        "constant, reset cache, run twice, run with equation subset/order}); every evaluation must equal the reference for the "
        "current definitions; non-trivial = an edit to X after a dependent Y != X was evaluated. part B: cases = (equation "
        "list, schedule) where a schedule is a choice list or a set of <= 2 preemption points over the source lines of "
        "modeling/model.py and sdsimulation/sd_simulation.py; non-trivial = schedule with >= 1 preemption. part C: cases = (dt in {1,0.5,0.25,0.2,0.1,0.04}, start, n, "
        "delay k*dt, order of <= 25 reads of x=random / y=x*1 / z=delay(x,k*dt) / stock s'=x at grid times through the three evaluation routes); "
        "repeated reads agree and y(t)==x(t), z(t)==x(t-k*dt), s(t+dt)==s(t)+dt*x(t); non-trivial = a dependant is read before the x value "
        "it consumes. distinct by case")
ASSUMPTIONS = [
    "schedules are explored at source-line granularity of modeling/model.py and sdsimulation/sd_simulation.py (harness owns the scheduler via sys.settrace)",
    "part B asserts agreement of values only, never which random value",
    "edits are made through the public modelling API on the model object that is then evaluated",
]
EXHAUSTIVE_SCOPE = "part B: every schedule with <= 1 preemption for all ordered equation pairs/triple; <= 2 preemptions for [x,y] and [y,x] (thorough: all pairs)"

# ---------------------------------------------------------------------------
# part A


def _deps(case):
    """name -> set of names it (transitively) depends on"""
    direct = {}
    for a in case["aux"]:
        direct[a["name"]] = _refs(a["eq"])
    for s in case["stocks"]:
        d = _refs(s["eq"])
        if isinstance(s["init"], list):
            d.add(s["init"][1])
        direct[s["name"]] = d
    for c in case["constants"]:
        direct[c["name"]] = set()
    out = {}
    for n in direct:
        seen = set()
        stack = list(direct[n])
        while stack:
            x = stack.pop()
            if x not in seen:
                seen.add(x)
                stack.extend(direct.get(x, ()))
        out[n] = seen
    return out


def _refs(t, acc=None):
    acc = set() if acc is None else acc
    if isinstance(t, list) and t:
        if t[0] == "ref":
            acc.add(t[1])
        elif t[0] == "delay":
            acc.add(t[1])
        for x in t[1:]:
            if isinstance(x, list):
                _refs(x, acc)
    return acc


def _has_model_node(t):
    if not isinstance(t, list) or not t:
        return False
    if t[0] in SM.MODEL_NODES or t[0] in ("time", "dt", "starttime", "stoptime"):
        return t[0] in SM.MODEL_NODES
    return any(_has_model_node(x) for x in t[1:] if isinstance(x, list))


def check_history(case):
    import copy

    from BPTK_Py import bptk

    info = {"status": "ok", "nontrivial": False}
    vs = []
    cur = copy.deepcopy(case["model"])
    grid = SM.grid(cur)
    # constants that are only given their value later in the history: until then an element without equation is 0.0
    late = {}
    for op in case["ops"]:
        if op[0] == "define_late":
            c = next((c for c in cur["constants"] if c["name"] == op[1]), None)
            if c is not None and op[1] not in late:
                late[op[1]] = c["value"]
    try:
        model, elems = SM.build_dsl(dict(cur, constants=[c for c in cur["constants"] if c["name"] not in late] +
                                         [{"name": n, "value": None} for n in late]), name="c08") if late else SM.build_dsl(cur, name="c08")
    except Exception as e:
        info["status"] = "dsl-rejected"
        return info, vs
    for c in cur["constants"]:
        if c["name"] in late:
            c["value"] = 0.0
    names = SM.element_names(cur)
    evaluated = set()
    last_edit = None

    def ref():
        return SM.RefModel(cur, limit=1e9).run()

    def check(nm, i, got, r, opno, op):
        if not E.close(got, r[nm][i], 1e-9):
            stale = "after-" + (last_edit or "no-edit")
            vs.append(Violation("stale:%s" % stale, "op #%d %r: %s(%r) = %r but a fresh model with the current definitions gives %r (last edit: %s); model now %r"
                                % (opno, op, nm, grid[i], got, r[nm][i], last_edit, SM.sym_show(cur))))
            return False
        return True

    try:
        r = ref()
    except E.Fragile:
        info["status"] = "fragile"
        return info, vs
    deps = _deps(cur)
    for opno, op in enumerate(case["ops"]):
        kind = op[0]
        try:
            if kind == "eval":
                nm, i = op[1], op[2] % len(grid)
                route = op[3] if len(op) > 3 else "call"
                if route == "equation":  # what the scenario runners use
                    got = model.equation(elems[nm].name, grid[i])
                elif route == "memoize":  # what Element.plot uses
                    got = model.memoize(elems[nm].name, grid[i])
                else:
                    got = elems[nm](grid[i])
                evaluated.add(nm)
                if not check(nm, i, got, r, opno, op):
                    break
            elif kind == "eval_all":
                ok = True
                for nm in (names if op[1] == "fwd" else list(reversed(names))):
                    for i in range(len(grid)):
                        if not check(nm, i, elems[nm](grid[i]), r, opno, op):
                            ok = False
                            break
                    evaluated.add(nm)
                    if not ok:
                        break
                if not ok:
                    break
            elif kind in ("set_eq", "set_init", "set_const"):
                target = op[1]
                if any(target in deps.get(y, ()) for y in evaluated if y != target):
                    info["nontrivial"] = True
                if kind == "set_eq":
                    a = next(a for a in cur["aux"] if a["name"] == target)
                    a["eq"] = op[2]
                    elems[target].equation = SM.lower_model_tree(op[2], elems, model, set())
                    last_edit = "equation:" + a["kind"]
                elif kind == "set_init":
                    s = next(s for s in cur["stocks"] if s["name"] == target)
                    s["init"] = op[2]
                    elems[target].initial_value = elems[op[2][1]] if isinstance(op[2], list) else float(op[2])
                    last_edit = "initial_value"
                else:
                    c = next(c for c in cur["constants"] if c["name"] == target)
                    c["value"] = op[2]
                    elems[target].equation = op[2]
                    last_edit = "constant"
                try:
                    r = ref()
                except E.Fragile:
                    info["status"] = "fragile"
                    return info, []
                deps = _deps(cur)
            elif kind == "define_late":
                target = op[1]
                if target in late:
                    if any(target in deps.get(y, ()) for y in evaluated if y != target):
                        info["nontrivial"] = True
                    c = next(c for c in cur["constants"] if c["name"] == target)
                    c["value"] = late.pop(target)
                    elems[target].equation = c["value"]
                    last_edit = "constant-first-definition"
                    try:
                        r = ref()
                    except E.Fragile:
                        info["status"] = "fragile"
                        return info, []
            elif kind == "reset":
                model.reset_cache()
            elif kind == "runs":
                # register a clone of the current model and run it repeatedly / with subsets
                b = bptk()
                try:
                    b.register_model(model, scenario_manager="smC08_%d" % opno)
                    sm = "smC08_%d" % opno
                    eqs1 = [names[j % len(names)] for j in op[1]] or names[:1]
                    eqs1 = list(dict.fromkeys(eqs1))
                    runs = []
                    for eqs in (names, names, eqs1, list(reversed(eqs1)), names):
                        df = b.run_scenarios(scenarios=["base"], scenario_managers=[sm], equations=eqs, return_format="df")
                        runs.append((eqs, df))
                        if op[2]:
                            b.reset_scenario_cache(scenario_manager=sm, scenario="base")
                    if len(op) > 3 and op[3] is not None and cur["constants"]:
                        # change a constant through the scenario object WITHOUT a cache reset, run again: whatever is reported,
                        # each (element, time) must have a single value - a reported arithmetic element equals its expression over
                        # the reported operands of the same run
                        cname = cur["constants"][op[3][0] % len(cur["constants"])]["name"]
                        b.get_scenario(sm, "base").set_property_value(cname, op[3][1])
                        df2 = b.run_scenarios(scenarios=["base"], scenario_managers=[sm], equations=names, return_format="df")
                        plain = [a for a in cur["aux"] if not _has_model_node(a["eq"])]
                        for i in range(len(grid)):
                            env = {nm: float(df2[nm].iloc[i]) for nm in names}
                            for a in plain:
                                try:
                                    want = E.RefEval(env, time=grid[i], dt=float(cur["dt"]), start=grid[0], stop=grid[-1]).ev(a["eq"])
                                except E.Fragile:
                                    continue
                                if isinstance(want, bool):
                                    want = float(want)
                                if a["kind"] == "flow":
                                    want = max(0, want)
                                if not E.close(env[a["name"]], want, 1e-9):
                                    vs.append(Violation("runs:inconsistent-after-scenario-constant-change",
                                                        "op #%d: after set_property_value(%s, %r) without reset, run reports %s(%r)=%r but its expression %s over the reported operands gives %r"
                                                        % (opno, cname, op[3][1], a["name"], grid[i], env[a["name"]], SM.show(a["eq"]), want)))
                                    break
                            if vs:
                                break
                    for eqs, df in runs:
                        for nm in eqs:
                            vals = [float(x) for x in df[nm]]
                            for i, g in enumerate(vals):
                                if not E.close(g, r[nm][i], 1e-9):
                                    vs.append(Violation("runs:%s" % ("subset" if eqs is not names else "full"),
                                                        "op #%d: run_scenarios(equations=%r) gives %s(%r)=%r, reference %r" % (opno, eqs, nm, grid[i], g, r[nm][i])))
                                    break
                            if vs:
                                break
                        if vs:
                            break
                finally:
                    b.destroy()
                if vs:
                    break
        except RecursionError:
            info["status"] = "recursion"
            return info, []
        except Exception as e:
            vs.append(Violation("crash:%s:%s" % (kind, type(e).__name__), "op #%d %r raised %r; model %r" % (opno, op, e, SM.sym_show(cur))))
            break
    return info, vs


def history_strategy(max_n=8):
    @st.composite
    def build(draw):
        model = draw(SM.model_strategy(max_n=max_n, allow={"lookup", "delay", "step", "time"}, stock_builtins=False))
        consts = [c["name"] for c in model["constants"]]
        stocks = [s["name"] for s in model["stocks"]]
        aux = [a["name"] for a in model["aux"]]
        names = consts + stocks + aux
        ops = []
        nops = draw(st.integers(2, 10))
        for _ in range(nops):
            k = draw(st.sampled_from(["eval", "eval", "eval_all", "set_eq", "set_init", "set_const", "reset", "runs", "define_late"]))
            if k == "eval":
                ops.append(["eval", draw(st.sampled_from(names)), draw(st.integers(0, max_n)), draw(st.sampled_from(["call", "call", "equation", "memoize"]))])
            elif k == "eval_all":
                ops.append(["eval_all", draw(st.sampled_from(["fwd", "rev"]))])
            elif k == "set_eq":
                j = draw(st.integers(0, len(aux) - 1))
                avail = aux[:j] + stocks + consts
                leaf = st.one_of(st.sampled_from(avail).map(lambda n: ["ref", n]), st.sampled_from(SM.NICE).map(lambda v: ["num", v]))
                tree = draw(st.one_of(
                    st.sampled_from(avail).map(lambda n: ["ref", n]),
                    st.tuples(st.sampled_from(["+", "-", "*"]), st.sampled_from(avail).map(lambda n: ["ref", n]), leaf).map(lambda x: ["bin", x[0], x[1], x[2]]),
                    st.tuples(st.sampled_from(["+", "*"]), st.just(["time"]), leaf).map(lambda x: ["bin", x[0], x[1], x[2]])))
                ops.append(["set_eq", aux[j], tree])
            elif k == "set_init":
                ops.append(["set_init", draw(st.sampled_from(stocks)),
                            draw(st.one_of(st.sampled_from([0.0, 3.0, 50.0, 100.0]), st.sampled_from(consts).map(lambda n: ["ref", n])))])
            elif k == "set_const":
                ops.append(["set_const", draw(st.sampled_from(consts)), draw(st.sampled_from([0.5, 1.0, 2.0, 7.0, 20.0]))])
            elif k == "define_late":
                ops.append(["define_late", draw(st.sampled_from(consts))])
            elif k == "reset":
                ops.append(["reset"])
            else:
                ops.append(["runs", draw(st.lists(st.integers(0, 12), min_size=1, max_size=4)), draw(st.booleans()),
                            draw(st.one_of(st.none(), st.tuples(st.integers(0, 3), st.sampled_from([0.5, 3.0, 7.0, 20.0])).map(list)))])
        return {"part": "A", "model": model, "ops": ops}
    return build()


# ---------------------------------------------------------------------------
# part B

_PATCHED = [False]


def _patch():
    if _PATCHED[0]:
        return
    from BPTK_Py.sdsimulation.sd_simulation import SdSimulation

    orig = SdSimulation._SdSimulation__simulate

    def wrapped(self, equation, until, start):
        sched = getattr(self, "_vf_sched", None)
        if sched is None:
            return orig(self, equation, until, start)
        sched.begin()
        try:
            return orig(self, equation, until, start)
        finally:
            sched.end()

    SdSimulation._SdSimulation__simulate = wrapped
    _PATCHED[0] = True


TRACE_FILES = ("modeling/model.py", "sdsimulation/sd_simulation.py")


def run_schedule(equations, chooser):
    """returns (frame, model, scheduler)"""
    from BPTK_Py import Model
    from BPTK_Py import sd_functions as sd
    from BPTK_Py.sdsimulation.sd_simulation import SdSimulation

    _patch()
    m = Model(starttime=0.0, stoptime=2.0, dt=1.0, name="c08b")
    x = m.converter("x")
    x.equation = sd.random(0, 1)
    y = m.converter("y")
    y.equation = x * 1.0
    s = m.stock("s")
    s.initial_value = 0.0
    s.equation = x
    sim = SdSimulation(model=m, name="c08b")
    sch = SC.Scheduler(TRACE_FILES, chooser, expected=len(equations))
    sim._vf_sched = sch
    frame = sim.start(output=["frame"], equations=list(equations))
    if sch.failed:
        raise SC.SchedTimeout(sch.failed)
    return frame, m, sch


def check_schedule(case):
    eqs = case["equations"]
    if "choices" in case:
        chooser = SC.list_chooser(case["choices"])
    else:
        chooser = SC.preempt_chooser({int(k): v for k, v in case["preempt"].items()})
    frame, m, sch = run_schedule(eqs, chooser)
    info = {"points": sch.points, "preemptions": sch.preemptions}
    vs = []
    times = [0.0, 1.0, 2.0]
    col = {e: {t: frame[e][t] for t in times} for e in eqs}
    sig_ctx = "+".join(eqs)
    for t in times:
        if "x" in col and "y" in col and col["y"][t] != col["x"][t]:
            vs.append(Violation("ambiguous:y-vs-x", "equations %r schedule %r: reported x(%r)=%r but y=x*1 reports %r"
                                % (eqs, sch.trace, t, col["x"][t], col["y"][t])))
            break
    if "x" in col and "s" in col and not vs:
        for t in (0.0, 1.0):
            if col["s"][t + 1.0] != col["s"][t] + 1.0 * col["x"][t]:
                vs.append(Violation("ambiguous:stock-vs-x", "equations %r schedule %r: s(%r)=%r, s(%r)=%r but reported x(%r)=%r"
                                    % (eqs, sch.trace, t + 1.0, col["s"][t + 1.0], t, col["s"][t], t, col["x"][t])))
                break
    if not vs:
        for e in eqs:
            for t in times:
                if m.memo[e].get(t) != col[e][t]:
                    vs.append(Violation("ambiguous:memo-vs-report", "equations %r schedule %r: memo[%s][%r]=%r but reported %r"
                                        % (eqs, sch.trace, e, t, m.memo[e].get(t), col[e][t])))
                    break
            if vs:
                break
    return info, vs



# ---------------------------------------------------------------------------
# part C: stochastic elements evaluated in generated orders (single thread)

C_NAMES = ["x", "y", "z", "s"]


def check_stochastic(case):
    """x = random; y = x*1; z = delay(x, k*dt); s' = x.  Whatever is drawn, every (element, time) has one value:
    repeated reads agree, y(t) == x(t), z(t) == x(t - k*dt) (x(start) before that), s(t+dt) == s(t) + dt*x(t)."""
    from decimal import Decimal

    from BPTK_Py import Model
    from BPTK_Py import sd_functions as sd

    info = {"status": "ok", "nontrivial": False}
    vs = []
    dt, start, n, k = Decimal(case["dt"]), Decimal(case["start"]), case["n"], case["k"]
    grid = [float(str(start + i * dt)) for i in range(n + 1)]
    m = Model(starttime=float(start), stoptime=grid[-1], dt=float(dt), name="c08c")
    x = m.converter("x")
    x.equation = sd.random(0, 1)
    y = m.converter("y")
    y.equation = x * 1.0
    z = m.converter("z")
    z.equation = sd.delay(m, x, float(k * dt))
    s_ = m.stock("s")
    s_.initial_value = 0.0
    s_.equation = x
    elems = {"x": x, "y": y, "z": z, "s": s_}
    seen = {}

    def read(nm, i, route="call"):
        if route == "equation":
            v = m.equation(elems[nm].name, grid[i])
        elif route == "memoize":
            v = m.memoize(elems[nm].name, grid[i])
        else:
            v = elems[nm](grid[i])
        v = float(v)
        if (nm, i) in seen and seen[(nm, i)] != v:
            vs.append(Violation("ambiguous:reread:" + nm, "%s(%r) was %r and is now %r (route %s; case %r)" % (nm, grid[i], seen[(nm, i)], v, route, case)))
            return None
        seen[(nm, i)] = v
        return v

    first_dependent_before_x = False
    try:
        for e, i, route in case["order"]:
            nm, i = C_NAMES[e % 4], i % (n + 1)
            if nm != "x" and ("x", max(i - (k if nm == "z" else (1 if nm == "s" else 0)), 0)) not in seen:
                first_dependent_before_x = True
            if read(nm, i, route) is None:
                return info, vs
        info["nontrivial"] = first_dependent_before_x
        # relations over everything that was read (reading x now must return what the dependants consumed)
        for (nm, i), v in sorted(seen.items()):
            if nm == "y":
                xv = read("x", i)
                if xv is None:
                    return info, vs
                if v != xv:
                    vs.append(Violation("ambiguous:y-vs-x", "y(%r)=%r but x(%r)=%r (case %r)" % (grid[i], v, grid[i], xv, case)))
                    return info, vs
            elif nm == "z":
                j = max(i - k, 0)
                xv = read("x", j)
                if xv is None:
                    return info, vs
                if v != xv:
                    vs.append(Violation("ambiguous:delay-vs-x", "z(%r)=%r is delay(x, %s) but x(%r)=%r (case %r)" % (grid[i], v, k * dt, grid[j], xv, case)))
                    return info, vs
            elif nm == "s" and i >= 1:
                s0, xv = read("s", i - 1), read("x", i - 1)
                if s0 is None or xv is None:
                    return info, vs
                want = s0 + float(dt) * xv
                if abs(v - want) > 1e-9 * max(1.0, abs(want)):
                    vs.append(Violation("ambiguous:stock-vs-x", "s(%r)=%r but s(%r)+dt*x(%r)=%r (case %r)" % (grid[i], v, grid[i - 1], grid[i - 1], want, case)))
                    return info, vs
    except Exception as e:
        vs.append(Violation("crash:stochastic:%s" % type(e).__name__, "%r raised for case %r" % (e, case)))
    return info, vs


def stochastic_strategy():
    return st.fixed_dictionaries({
        "part": st.just("C"),
        "dt": st.sampled_from(["0.1", "0.1", "0.2", "0.04", "0.25", "1", "0.5"]),
        "start": st.sampled_from(["0", "0", "1", "0.5"]),
        "n": st.integers(3, 10), "k": st.integers(1, 3),
        "order": st.lists(st.tuples(st.integers(0, 3), st.integers(0, 10), st.sampled_from(["call", "call", "equation", "memoize"])).map(list),
                          min_size=3, max_size=25)})


def check_case(case):
    if case.get("part") == "A":
        return check_history(case)
    if case.get("part") == "C":
        return check_stochastic(case)
    return check_schedule(case)


def _body(ctx):
    def body(case):
        info, vs = check_case(case)
        if case.get("part") == "A":
            if info["status"] != "ok":
                ctx.discard(info["status"])
                return
            kinds = sorted(set(op[0] for op in case["ops"]))
            ctx.case({"part": "A", "model": SM.sym_show(case["model"]), "ops": case["ops"]}, nontrivial=info["nontrivial"],
                     labels=["A:history"] + ["A:op:" + k for k in kinds], key=case)
        elif case.get("part") == "C":
            ctx.case({"part": "C", "case": case}, nontrivial=info["nontrivial"], labels=["C:stochastic", "C:dt:" + case["dt"]], key=case)
        else:
            ctx.extra["schedule_points_max"] = max(ctx.extra.get("schedule_points_max", 0), info["points"])
            ctx.case({"part": "B", "equations": case["equations"], "schedule": case.get("choices") and "choice-list[%d]" % len(case["choices"]) or case.get("preempt"),
                      "points": info["points"], "preemptions": info["preemptions"]},
                     nontrivial=info["preemptions"] >= 1,
                     labels=["B:schedule", "B:preemptions:%d" % min(info["preemptions"], 3), "B:eqs:" + "+".join(case["equations"])], key=case)
        ctx.report(vs)
    return body


def _probe_points(eqs):
    _, _, sch = run_schedule(eqs, SC.list_chooser([]))
    return sch.points


PAIRS = [list(p) for p in itertools.permutations(["x", "y", "s"], 2)] + [["x", "y", "s"], ["s", "y", "x"], ["y", "s", "x"]]


def plan(tier):
    specs = []
    nA = 150 if tier == "quick" else 2000
    for i in range(8):
        specs.append({"kind": "A", "n": nA})
    # B: exhaustive <= 1 preemption for every equation list
    specs.append({"kind": "B1", "lists": PAIRS})
    two = [["x", "y"], ["y", "x"]] if tier == "quick" else PAIRS[:6]
    parts = 5 if tier == "quick" else 8
    for eqs in two:
        for p in range(parts if tier == "quick" else 1):
            specs.append({"kind": "B2", "eqs": eqs, "part": p, "of": parts if tier == "quick" else 1})
    for i in range(2):
        specs.append({"kind": "C", "n": 400 if tier == "quick" else 8000})
    nB = 400 if tier == "quick" else 10000
    for i in range(3):
        specs.append({"kind": "Brand", "n": nB})
    return specs


def run_shard(spec, ctx):
    body = _body(ctx)
    if spec["kind"] == "A":
        ctx.hyp(history_strategy(), body, spec["n"])
    elif spec["kind"] == "C":
        ctx.hyp(stochastic_strategy(), body, spec["n"])
    elif spec["kind"] == "B1":
        def cases():
            for eqs in spec["lists"]:
                P = _probe_points(eqs)
                yield {"part": "B", "equations": eqs, "preempt": {}}
                for p in range(P + 2):
                    for c in range(1, len(eqs)):
                        yield {"part": "B", "equations": eqs, "preempt": {str(p): c}}
        ctx.enum(cases(), body)
        ctx.exhaustive = True
    elif spec["kind"] == "B2":
        eqs = spec["eqs"]

        def cases():
            P = _probe_points(eqs) + 2
            k = 0
            for p1 in range(P):
                for p2 in range(p1 + 1, P):
                    if k % spec["of"] == spec["part"]:
                        yield {"part": "B", "equations": eqs, "preempt": {str(p1): 1, str(p2): 1}}
                    k += 1
        ctx.enum(cases(), body)
        ctx.exhaustive = True
    else:
        strat = st.fixed_dictionaries({
            "part": st.just("B"),
            "equations": st.sampled_from(PAIRS),
            "choices": st.lists(st.sampled_from([0, 0, 0, 0, 0, 0, 1, 2]), min_size=0, max_size=250)})
        ctx.hyp(strat, body, spec["n"])
