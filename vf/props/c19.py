"""C19 - externalised instance state is restored losslessly.

Generator: session histories (run spec, number of steps, which steps carry which settings: no body,
{}, constants, points) x adapter mode (compress on/off) x adapter kind (FileAdapter on a scratch
directory / in-memory adapter) x restore path (per-instance lazy load, whole-server save-state +
fresh server start-up load + load-state).
Oracle: round trip - the session state after the restore equals the one before the save (keys
compared numerically) and session-results / flat-session-results are served unchanged; run-step
answers 200 with and without a JSON body in both modes.
"""
import copy
import json
import shutil
import tempfile

from hypothesis import strategies as st

from vf.runner import Violation

ID = "C19"
LEVEL = "exploration"
TECHNIQUE = "generated session histories (Hypothesis) saved and restored through external state adapters; round-trip oracle on session state and served results"
RULE = ("cases = (start in {0,1,2.5,8,9.5,98}, dt in {1,0.5,0.25,0.1}, one or two SD scenario managers in the session, begin-session with or without settings, "
        "history of run-step / run-steps k / a new begin-session / save-state requests, each step with settings in {no body, {}, constants, points, scenario named with {}, manager named with {}} per manager, incl. uniform histories (one shape at every step), "
        "compress on/off, adapter kind {file, memory}, a session-less sibling instance, restore path {instance, new server, same server after end-session / new begin-session}); session_state (scenario managers, scenarios, "
        "equations, step, starttime, stoptime, dt, settings_log, results_log) and the bodies of session-results / flat-session-results "
        "before the save must equal those after the load. non-trivial = start != 1 or dt != 1, or a step without settings / with {}; "
        "distinct by case")
ASSUMPTIONS = [
    "JSON cannot keep float keys: keys of the logs are compared after float()",
    "the lock flag is not part of the compared state (it is reset on save by design)",
]

SM, SC = "smC19", "base"


SM2 = "smC19b"


def make_factory(start, stop, dt, made, two=False):
    def factory():
        from BPTK_Py import Model, bptk
        from BPTK_Py import sd_functions as sd

        def model(name, k0):
            m = Model(starttime=start, stoptime=stop, dt=dt, name=name)
            s = m.stock("s")
            f = m.flow("f")
            k = m.constant("k")
            c = m.converter("c")
            k.equation = k0
            m.points["p"] = [[0.0, 0.0], [10.0, 10.0]]
            c.equation = sd.lookup(sd.time(), "p")
            f.equation = k * 1.0 + c
            s.equation = f
            s.initial_value = 0.0
            return m
        b = bptk()
        b.register_model(model("c19", 2.0), scenario_manager=SM)
        if two:
            b.register_model(model("c19b", 3.0), scenario_manager=SM2)
        made.append(b)
        return b
    return factory


def settings_body(s1, s2=None):
    """JSON body of a stepping request: None = no body at all"""
    if s1 is None and s2 is None:
        return None
    d = {}
    for sm_, s_ in ((SM, s1), (SM2, s2)):
        if s_ == "empty-scenario":  # the scenario is named, nothing is set for it
            d[sm_] = {SC: {}}
        elif s_ == "empty-manager":  # the manager is named, no scenario below it
            d[sm_] = {}
        elif s_:
            d[sm_] = {SC: s_}
    return {"settings": d}


def memory_adapter(compress):
    from BPTK_Py import ExternalStateAdapter

    class Mem(ExternalStateAdapter):
        def __init__(self, compress):
            super().__init__(compress)
            self.store = {}

        def _save_state(self, states):
            for s_ in states:
                self._save_instance(s_)

        def _save_instance(self, state):
            self.store[state.instance_id] = copy.deepcopy(state)

        def _load_state(self):
            return [copy.deepcopy(v) for v in self.store.values()]

        def _load_instance(self, instance_uuid):
            v = self.store.get(instance_uuid)
            return copy.deepcopy(v) if v is not None else None

        def delete_instance(self, instance_uuid):
            self.store.pop(instance_uuid, None)
    return Mem(compress)


def norm_state(st_):
    """comparable form of a session state"""
    if st_ is None:
        return None

    def fk(d):
        if d is None:
            return None
        out = {}
        for k, v in d.items():
            try:
                kk = float(k)
            except (TypeError, ValueError):
                kk = k
            out[kk] = fv(v)
        return out

    def fv(v):
        if isinstance(v, dict):
            return fk(v)
        if isinstance(v, (list, tuple)):
            return [fv(x) for x in v]
        if isinstance(v, (int, float)) and not isinstance(v, bool):
            return float(v)
        return v
    keys = ["scenarios", "scenario_managers", "equations", "step", "starttime", "stoptime", "dt", "settings", "agents"]
    out = {k: fv(st_.get(k)) for k in keys}
    out["settings_log"] = fk(st_.get("settings_log"))
    out["results_log"] = fk(st_.get("results_log"))
    return out


def first_diff(a, b, path=""):
    if type(a) != type(b) and not (isinstance(a, (int, float)) and isinstance(b, (int, float))):
        return "%s: %r vs %r" % (path, a, b)
    if isinstance(a, dict):
        for k in list(a.keys()) + [k for k in b.keys() if k not in a]:
            if k not in a:
                return "%s: key %r only after restore" % (path, k)
            if k not in b:
                return "%s: key %r lost in restore" % (path, k)
            d = first_diff(a[k], b[k], path + "/" + str(k))
            if d:
                return d
        return None
    if isinstance(a, list):
        if len(a) != len(b):
            return "%s: length %d vs %d" % (path, len(a), len(b))
        for i, (x, y) in enumerate(zip(a, b)):
            d = first_diff(x, y, path + "[%d]" % i)
            if d:
                return d
        return None
    if a != b:
        return "%s: %r vs %r" % (path, a, b)
    return None


def _ops(case):
    if "ops" in case:
        return case["ops"]
    return [["step", s_, None] for s_ in case["steps"]]  # format of earlier replay files


def check_case(case):
    from BPTK_Py import BptkServer, FileAdapter

    vs = []
    info = {}
    start, dt = float(case["start"]), float(case["dt"])
    ops = _ops(case)
    steps = ops
    two = bool(case.get("two"))
    managers = case.get("managers", [SM])
    stop = start + 40 * dt
    made = []
    adir = None
    mode = "compress" if case["compress"] else "plain"
    try:
        if case["adapter"] == "file":
            adir = tempfile.mkdtemp(prefix="c19_", dir=".")
            adapter = FileAdapter(case["compress"], adir)
        else:
            adapter = memory_adapter(case["compress"])
        app = BptkServer(__name__, bptk_factory=make_factory(start, stop, dt, made, two), external_state_adapter=adapter)
        app.logger.disabled = True
        c = app.test_client()
        iid = json.loads(c.post("/start-instance").data)["instance_uuid"]
        if case.get("spare"):
            # a sibling instance on which no session has been begun (yet)
            spare = json.loads(c.post("/start-instance").data)["instance_uuid"]

        def begin(equations, bs):
            body = {"scenario_managers": managers, "scenarios": [SC], "equations": equations}
            sb = settings_body(*(bs or [None, None]))
            if sb is not None and sb["settings"]:
                body["settings"] = sb["settings"]
            return c.post("/%s/begin-session" % iid, json=body)
        r = begin(case["equations"], case.get("begin_settings"))
        if r.status_code != 200:
            vs.append(Violation("begin-session:%d" % r.status_code, "begin-session -> %d" % r.status_code))
            return info, vs
        for i, op in enumerate(ops):
            if op[0] == "step":
                body = settings_body(op[1], op[2] if two else None)
                r = c.post("/%s/run-step" % iid) if body is None else c.post("/%s/run-step" % iid, json=body)
                what = "no-body" if body is None else ("empty-settings" if not body["settings"] else "settings")
                what = "run-step:" + what
            elif op[0] == "steps":
                body = settings_body(op[2], op[3] if two else None) or {"settings": {}}
                r = c.post("/%s/run-steps" % iid, json=dict(body, numberSteps=op[1]))
                what = "run-steps"
            elif op[0] == "begin":
                r = begin(op[1], op[2])
                what = "begin-session"
            elif op[0] == "save":
                r = c.get("/save-state")
                what = "save-state"
            else:
                raise ValueError(op)
            if r.status_code != 200:
                vs.append(Violation("request-status:%s:%s" % (mode, what), "request #%d %r (%s) with a %s adapter -> %d %r" % (i, op, what, mode, r.status_code, r.data[:200])))
                return info, vs
        if case["path"] == "instance" and ops and ops[-1][0] == "begin":
            # nothing has written the new session yet: save the instance through the adapter as the stepping handlers do
            adapter.save_instance(app._instance_manager._get_instance_state(iid))
        im = app._instance_manager
        before_state = norm_state(copy.deepcopy(im._instances[iid]["instance"].session_state))
        before_res = json.loads(c.get("/%s/session-results" % iid).data)
        before_flat = json.loads(c.get("/%s/flat-session-results" % iid).data)
        if case["path"] == "instance":
            # the automatic save after the last run-step is the saved state; drop the instance from memory
            del im._instances[iid]
            c2 = c
            r = c2.get("/%s/session-results" % iid)
            if r.status_code != 200:
                vs.append(Violation("restore-refused:instance:%s" % mode, "session-results after dropping the instance -> %d %r" % (r.status_code, r.data[:200])))
                return info, vs
            after_res = json.loads(r.data)
            after_state = norm_state(copy.deepcopy(im._instances[iid]["instance"].session_state))
        else:
            r = c.get("/save-state")
            if r.status_code != 200:
                vs.append(Violation("save-state:%d" % r.status_code, "save-state -> %d" % r.status_code))
                return info, vs
            if case["path"].startswith("same-server"):
                # the live instance moves on after the save (its session is ended, or a new one is begun - neither writes to
                # the store); load-state on the same server must bring the saved session back
                if case["path"] == "same-server-end":
                    c.post("/%s/end-session" % iid)
                else:
                    c.post("/%s/begin-session" % iid, json={"scenario_managers": managers, "scenarios": [SC], "equations": ["f"]})
                app2 = app
            else:
                app2 = BptkServer(__name__, bptk_factory=make_factory(start, stop, dt, made, two), external_state_adapter=adapter)
            app2.logger.disabled = True
            c2 = app2.test_client()
            r = c2.post("/load-state")
            if r.status_code != 200:
                vs.append(Violation("load-state:%d" % r.status_code, "load-state -> %d" % r.status_code))
                return info, vs
            im2 = app2._instance_manager
            if iid not in im2._instances:
                vs.append(Violation("restore-missing:server:%s" % mode, "instance not present after %s + load-state" % case["path"]))
                return info, vs
            after_state = norm_state(copy.deepcopy(im2._instances[iid]["instance"].session_state))
            after_res = json.loads(c2.get("/%s/session-results" % iid).data)
        after_flat = json.loads(c2.get("/%s/flat-session-results" % iid).data)
        for field in before_state:
            d = first_diff(before_state[field], (after_state or {}).get(field), "/" + field)
            if d:
                vs.append(Violation("state-differs:%s:%s:%s" % (mode, case["adapter"], field), "session state differs after restore (%s path): %s; steps %r start=%s dt=%s"
                                    % (case["path"], d, steps, case["start"], case["dt"])))
        d = first_diff(before_res, after_res, "/session-results")
        if d:
            vs.append(Violation("results-differ:%s:%s:session-results" % (mode, case["adapter"]), "session results differ after restore: %s; start=%s dt=%s steps %r" % (d, case["start"], case["dt"], steps)))
        d = first_diff(before_flat, after_flat, "/flat-session-results")
        if d:
            vs.append(Violation("results-differ:%s:%s:flat-session-results" % (mode, case["adapter"]), "flat session results differ after restore: %s; start=%s dt=%s steps %r" % (d, case["start"], case["dt"], steps)))
        if vs:
            return info, vs
        # the restored session continues: next step answers 200 with and without body
        for body in (None, {"settings": {}}):
            r = c2.post("/%s/run-step" % iid, json=body) if body is not None else c2.post("/%s/run-step" % iid)
            if r.status_code != 200:
                vs.append(Violation("run-step-status-after-restore:%s:%s" % (mode, "no-body" if body is None else "empty-settings"),
                                    "run-step after restore -> %d %r" % (r.status_code, r.data[:200])))
                return info, vs
    finally:
        for b in made:
            try:
                b.destroy()
            except Exception:
                pass
        if adir:
            shutil.rmtree(adir, ignore_errors=True)
    return info, vs


def case_strategy():
    setting = st.one_of(st.none(), st.just({}), st.sampled_from([{"constants": {}}, {"points": {}}, {"constants": {}, "points": {}}]),
                        st.sampled_from(["empty-scenario", "empty-manager"]),
                        st.sampled_from([0.5, 1.0, 3.0, 7.0]).map(lambda v: {"constants": {"k": v}}),
                        st.sampled_from([1.0, 5.0, 20.0]).map(lambda v: {"points": {"p": [[0.0, 0.0], [10.0, v]]}}),
                        st.sampled_from([1.0, 4.0]).map(lambda v: {"constants": {"k": v}, "points": {"p": [[0.0, 1.0], [10.0, v]]}}))
    eqs = st.sampled_from([["s"], ["s", "f"], ["k", "c", "s"]])
    bset = st.one_of(st.none(), st.tuples(setting, setting).map(list))
    op = st.one_of(st.tuples(setting, setting).map(lambda x: ["step", x[0], x[1]]),
                   st.tuples(setting, setting).map(lambda x: ["step", x[0], x[1]]),
                   st.tuples(st.integers(1, 3), setting, setting).map(lambda x: ["steps", x[0], x[1], x[2]]),
                   st.tuples(eqs, bset).map(lambda x: ["begin", x[0], x[1]]),
                   st.just(["save"]))
    return st.fixed_dictionaries({
        "start": st.sampled_from(["0", "1", "2.5", "8", "9.5", "98"]), "dt": st.sampled_from(["1", "0.5", "0.25", "0.1"]),
        "two": st.booleans(), "begin_settings": bset, "spare": st.sampled_from([False, False, True]),
        "ops": st.one_of(st.lists(op, min_size=1, max_size=7), st.lists(op, min_size=1, max_size=7),
                         # uniform histories: every step carries settings of one and the same shape (the compressed log format's best case)
                         st.tuples(setting, setting, st.integers(1, 5)).map(lambda x: [["step", x[0], x[1]]] * x[2])),
        "equations": eqs,
        "compress": st.booleans(), "adapter": st.sampled_from(["file", "memory"]), "path": st.sampled_from(["instance", "server", "server", "same-server-end", "same-server-begin"])}).map(
        lambda c: dict(c, managers=[SM, SM2] if c["two"] else [SM]))


def _body(ctx):
    def body(case):
        info, vs = check_case(case)
        ops = _ops(case)
        nt = case["start"] != "1" or case["dt"] != "1" or any(o[0] != "step" or o[1] is None or o[1] == {} for o in ops)
        ctx.case(case, nontrivial=nt, labels=["compress:%s" % case["compress"], "adapter:" + case["adapter"], "path:" + case["path"],
                                              "managers:%d" % len(case.get("managers", [SM]))] + (["with-sessionless-sibling"] if case.get("spare") else []) + sorted(set("op:" + o[0] for o in ops)) +
                 (["ends-with-begin"] if ops[-1][0] == "begin" else []) + (["begin-settings"] if case.get("begin_settings") else []), key=case)
        ctx.report(vs)
    return body


def plan(tier):
    n = 150 if tier == "quick" else 3000
    return [{"n": n} for _ in range(16)]


def run_shard(spec, ctx):
    ctx.hyp(case_strategy(), _body(ctx), spec["n"])
