"""C11 - agent events reach exactly the addressed agent, once, at the right step.

Generator: scripts (population, dt, per step: sends by agents [plain / delayed / broadcast],
between steps: create / delete / reconfigure / state change), driven through Model.run_step
step by step or through Model.run().
Oracle: reference router keyed by agent *id*: an event sent during step g to id r is handled
at step g+1+ceil(delay/dt) by r only, exactly once, iff r is alive then; same-step events to
one agent are handled in send order.
"""
import math
from decimal import Decimal
from fractions import Fraction

from hypothesis import strategies as st

from vf.runner import Violation

ID = "C11"
LEVEL = "exploration"
TECHNIQUE = "generated event/lifecycle scripts (Hypothesis) vs id-keyed reference router; history invariant over the handler log"
RULE = ("cases = scripts over 1-3 agent types: per step a list of sends (sender, receiver id incl. dead ids, optional delay "
        "that is 0, < dt, a multiple or a non-multiple of dt, a broadcast, or an event of a kind the receiver has no handler for), agents deleting agents while acting, per gap create/delete/delete-set/configure_agents/"
        "state-change; driven by run_step or run(). The handler log must equal the reference log (who, when, once, order). "
        "non-trivial = script has a send after a delete/reconfigure, or a delayed event, or >= 2 events to one agent in one step; "
        "distinct by script")
ASSUMPTIONS = [
    "agents register handlers for every state they can be in (an agent without a handler for its state keeps events queued)",
    "events are sent from agent act() methods; structural changes happen in the model's end_round callback",
    "ceil(delay/dt) is computed on the decimal literals with exact fractions",
    "Model.run() is configured through run_specs with integer start/stop (the documented path)",
]

DTS = ["1", "0.5", "0.25", "0.2", "0.1", "0.04"]  # 0.04: 0.28/0.04 is 7.000000000000001 in floats


class Driver:
    """holds the script, the reference registry and both logs"""

    def __init__(self, case):
        self.case = case
        self.dt = Fraction(case["dt"])
        self.script = case["script"]
        self.g = 0
        self.live = {}  # id -> type (insertion ordered)
        self.ever = []
        self.live_at = {}  # g -> set(ids)
        self.sent = []  # dicts: serial, g, receiver, delay(Fraction|None)
        self.handled = []  # (g, agent_id, serial) in handling order
        self.handled_uid = {}  # serial -> uid of the handling agent instance
        self.serial = 0
        self.by_obj = {}  # id(event object) -> serial (objects are kept alive in self.keep)
        self.keep = []
        self.plan = {}
        self.flags = set()

    def uid_of(self, agent):
        """identity of an agent *instance* (ids must never be re-used, but the reference does not rely on that)"""
        u = agent.__dict__.get("_vf_uid")
        if u is None:
            self.uid_counter = getattr(self, "uid_counter", 0) + 1
            u = self.uid_counter
            agent.__dict__["_vf_uid"] = u
        return u

    # called by the instrumented model --------------------------------
    def begin(self, model):
        g = self.g
        self.live_at[g] = {a.id: self.uid_of(a) for a in model.agents}
        self.plan = {}
        if g < len(self.script):
            live_ids = [a.id for a in model.agents]
            for s in self.script[g].get("sends", []):
                if not live_ids:
                    continue
                sender = live_ids[s["s"] % len(live_ids)]
                self.plan.setdefault(sender, []).append(s)

    def act(self, agent, model):
        from BPTK_Py import DelayedEvent, Event

        # an agent may remove itself or an agent created before it while it acts (the agents after it must still get their turn)
        if self.g < len(self.script):
            order = list(self.live_at[self.g].keys())
            for pos, back in self.script[self.g].get("actdel", []):
                if order and order[pos % len(order)] == agent.id:
                    idx = pos % len(order)
                    victim = order[max(0, idx - back)]
                    if model.agent(victim) is not None:
                        model.delete_agent(victim)
                        self.flags.add("delete")
                        self.flags.add("delete-during-act")

        for s in self.plan.get(agent.id, []):
            if s.get("bcast"):
                ty = s["bcast"]
                targets = list(model.agent_ids(ty)) if ty in model.agent_type_map else []
                want = [i for i in self.live_at[self.g] if model.agent(i) is not None and model.agent(i).agent_type == ty]
                serials = {}

                def factory(rid, serials=serials):
                    self.serial += 1
                    serials[rid] = self.serial
                    self.sent.append({"serial": self.serial, "g": self.g, "receiver": rid, "delay": None, "sender": agent.id,
                                      "receiver_uid": self.live_at[self.g].get(rid)})
                    return Event("ev", agent.id, rid, data=self.serial)
                model.broadcast_event(ty, factory)
                self.flags.add("broadcast")
                continue
            pool = sorted(self.live_at[self.g]) if s.get("live") else list(self.ever)
            if not pool:
                continue
            rid = pool[s["r"] % len(pool)]
            if s.get("noise"):
                # an event of a kind the receiver has no handler for: it is ignored and must not disturb the others
                model.enqueue_event(Event("noise", agent.id, rid, data=None))
                self.flags.add("unhandled-kind")
                continue
            delay = s.get("delay")
            # "twin": two distinct event objects with equal contents (same name, sender, receiver, data, delay) in one step;
            # they are told apart by object identity, and each must be handled once
            for _copy in range(2 if s.get("twin") else 1):
                self.serial += 1
                rec = {"serial": self.serial, "g": self.g, "receiver": rid, "delay": None if delay is None else Fraction(delay),
                       "sender": agent.id, "receiver_uid": self.live_at[self.g].get(rid)}
                self.sent.append(rec)
                data = "twin" if s.get("twin") else self.serial
                if delay is None:
                    ev = Event("ev", agent.id, rid, data=data)
                else:
                    ev = DelayedEvent("ev", agent.id, rid, delay=float(delay), data=data)
                    self.flags.add("delayed")
                self.by_obj[id(ev)] = self.serial
                self.keep.append(ev)
                model.enqueue_event(ev)
            if s.get("twin"):
                self.flags.add("twin-events")
            if rid not in self.live_at[self.g]:
                self.flags.add("send-to-dead-id")

    def on_event(self, agent, event):
        serial = self.by_obj.get(id(event), event.data)
        self.handled.append((self.g, agent.id, serial))
        self.handled_uid[serial] = self.uid_of(agent)

    def end(self, model):
        g = self.g
        if g < len(self.script):
            for act in self.script[g].get("gap", []):
                ids = [a.id for a in model.agents]
                kind = act[0]
                if kind == "create":
                    a = model.create_agent(act[1], {})
                    self.ever.append(a.id)
                elif kind == "del" and ids:
                    model.delete_agent(ids[act[1] % len(ids)])
                    self.flags.add("delete")
                elif kind == "delset" and ids:
                    model.delete_agents([ids[act[1] % len(ids)], ids[act[2] % len(ids)]])
                    self.flags.add("delete")
                elif kind == "configure":
                    model.configure_agents([{"name": t, "count": c} for t, c in self.case["pop"]])
                    for a in model.agents:
                        self.ever.append(a.id)
                    self.flags.add("reconfigure")
                elif kind == "state" and ids:
                    ag = model.agent(ids[act[1] % len(ids)])
                    ag.state = "s2" if ag.state == "active" else "active"
        self.g += 1


def _build(case, drv):
    from BPTK_Py import Agent, DataCollector, Model, SimultaneousScheduler

    class Ag(Agent):
        TYPE = "?"

        def initialize(self):
            self.agent_type = self.TYPE
            self.state = "active"
            self.register_event_handler(["active", "s2"], "ev", self.on_ev)

        def on_ev(self, event):
            drv.on_event(self, event)

        def act(self, time, round_no, step_no):
            drv.act(self, self.model)

    class M(Model):
        def begin_round(self, time, sim_round, step):
            drv.begin(self)

        def end_round(self, time, sim_round, step):
            drv.end(self)

    m = M(name="c11", scheduler=SimultaneousScheduler(), data_collector=DataCollector())
    for ty, _ in case["pop"]:
        cls = type("Ag" + ty, (Ag,), {"TYPE": ty})
        m.register_agent_factory(ty, lambda agent_id, model, properties, cls=cls: cls(agent_id, model, properties))
    return m


def expected(drv, nsteps):
    exp = []
    dt = drv.dt
    for e in drv.sent:
        wait = 0 if e["delay"] is None else math.ceil(e["delay"] / dt)
        h = e["g"] + 1 + wait
        if h < nsteps and e["receiver_uid"] is not None and drv.live_at.get(h, {}).get(e["receiver"]) == e["receiver_uid"]:
            exp.append((h, e["receiver"], e["serial"]))
    return exp


def check_case(case):
    drv = Driver(case)
    vs = []
    m = _build(case, drv)
    dt = float(case["dt"])
    per_round = int(round(1 / dt))
    if case["mode"] == "run":
        rounds = case["rounds"]
        m.run_specs(0, rounds - 1, dt)
        nsteps = rounds * per_round
    else:
        nsteps = case["nsteps"]
        m.run_specs(0, max(1, nsteps), dt)
    m.configure_agents([{"name": t, "count": c} for t, c in case["pop"]])
    drv.ever = [a.id for a in m.agents]
    crashed = None
    try:
        if case["mode"] == "run":
            m.run(collect_data=bool(case.get("collect", True)))
        else:
            for g in range(nsteps):
                m.run_step(g, collect_data=bool(case.get("collect", True)))
    except Exception as e:  # a crash of the run is judged on its own
        crashed = e
    info = {"flags": sorted(drv.flags), "sent": len(drv.sent), "handled": len(drv.handled), "nsteps": nsteps}
    binary = case["dt"] in ("1", "0.5", "0.25")
    if crashed is not None:
        why = "dead-id" if "send-to-dead-id" in drv.flags or "delete" in drv.flags or "reconfigure" in drv.flags else "other"
        vs.append(Violation("crash:%s:%s" % (type(crashed).__name__, why),
                            "run aborted at step %d with %r; sent=%r live=%r" % (drv.g, crashed, drv.sent[-3:], sorted(drv.live_at.get(drv.g, ())))))
        return info, vs
    exp = expected(drv, nsteps)
    by_serial_exp = {s: (h, r) for h, r, s in exp}
    seen = {}
    sent_by_serial = {e["serial"]: e for e in drv.sent}
    for g, aid, s in drv.handled:
        e = sent_by_serial.get(s)
        if s in seen:
            vs.append(Violation("duplicate", "event #%d (to id %s) handled twice: %r and %r" % (s, e["receiver"], seen[s], (g, aid))))
            continue
        seen[s] = (g, aid)
        if aid == e["receiver"] and e["receiver_uid"] is not None and drv.handled_uid.get(s) != e["receiver_uid"]:
            vs.append(Violation("misrouted:id-reused", "event #%d was addressed to id %d (an agent that has since been removed); it was handled at step %d by a "
                                "different agent that was given the same id" % (s, e["receiver"], g)))
            continue
        if aid != e["receiver"]:
            ctx = "after-delete" if ("delete" in drv.flags or "reconfigure" in drv.flags) else "no-delete"
            vs.append(Violation("misrouted:" + ctx, "event #%d addressed to id %d was handled by id %d at step %d (live then: %r)"
                                % (s, e["receiver"], aid, g, sorted(drv.live_at.get(g, ())))))
            continue
        if s not in by_serial_exp:
            vs.append(Violation("unexpected-delivery", "event #%d %r handled at step %d by %d but the reference expects no delivery" % (s, _show(e), g, aid)))
            continue
        h, r = by_serial_exp[s]
        if g != h:
            kind = "undelayed" if e["delay"] is None else ("delayed:%s-dt" % ("binary" if binary else "decimal"))
            vs.append(Violation("timing:" + kind, "event #%d %r sent at step %d with dt=%s handled at step %d, expected step %d"
                                % (s, _show(e), e["g"], case["dt"], g, h)))
    for h, r, s in exp:
        if s not in seen:
            e = sent_by_serial[s]
            kind = "undelayed" if e["delay"] is None else "delayed"
            vs.append(Violation("lost:" + kind, "event #%d %r sent at step %d never handled (expected at step %d by id %d)" % (s, _show(e), e["g"], h, r)))
    # order among events sent in the same step to the same agent and handled in the same step
    groups = {}
    for g, aid, s in drv.handled:
        e = sent_by_serial[s]
        groups.setdefault((g, aid, e["g"]), []).append(s)
    for key, serials in groups.items():
        if serials != sorted(serials):
            delayed = any(sent_by_serial[s]["delay"] is not None for s in serials)
            vs.append(Violation("order:" + ("delayed" if delayed else "undelayed"),
                                "agent %d at step %d handled events sent in step %d in order %r (serial = send order)"
                                % (key[1], key[0], key[2], serials)))
    info["multi"] = any(len(v) > 1 for v in groups.values())
    out = {}
    for v in vs:
        out.setdefault(v.signature, v)
    return info, list(out.values())


def _show(e):
    return {"to": e["receiver"], "delay": None if e["delay"] is None else str(float(e["delay"])), "from": e["sender"]}


def _body(ctx):
    def body(case):
        info, vs = check_case(case)
        flags = info["flags"]
        nt = bool(("delete" in flags or "reconfigure" in flags or "delayed" in flags or info.get("multi")) and info["sent"] > 0)
        labels = ["mode:" + case["mode"], "dt:" + case["dt"]] + ["has:" + f for f in flags]
        if info.get("multi"):
            labels.append("has:multi-events-one-agent-step")
        ctx.case({"mode": case["mode"], "dt": case["dt"], "pop": case["pop"], "script": case["script"],
                  "sent": info["sent"], "handled": info["handled"]}, nontrivial=nt, labels=labels, key=case)
        ctx.report(vs)
    return body


def delay_strategy(dt):
    d = Fraction(dt)
    opts = [None, None, "0", str(float(d / 2)), dt, str(float(2 * d)), str(float(3 * d)), str(float(d * 3 / 2)), str(float(5 * d)),
            "0.3", "0.7", "1", "1.5", "0.6"]
    # exact decimal multiples k*dt (the float quotient of some of them lies an ulp beside k)
    opts += [str(Decimal(dt) * k) for k in (4, 6, 7, 7, 9)]
    return st.sampled_from(opts)


def case_strategy(max_steps):
    @st.composite
    def build(draw):
        dt = draw(st.sampled_from(DTS))
        ntypes = draw(st.integers(1, 3))
        pop = [[t, draw(st.integers(1, 3))] for t in ["A", "B", "C"][:ntypes]]
        mode = draw(st.sampled_from(["steps", "steps", "run"]))
        per_round = int(round(1 / float(dt)))
        if mode == "run":
            rounds = draw(st.integers(2, max(2, max_steps // per_round)))
            nsteps = rounds * per_round
        else:
            nsteps = draw(st.integers(2, max_steps))
            rounds = None
        send = st.fixed_dictionaries({"s": st.integers(0, 5), "r": st.integers(0, 8), "live": st.booleans(),
                                      "delay": delay_strategy(dt),
                                      "bcast": st.sampled_from([None, None, None, None, "A"]),
                                      "noise": st.sampled_from([False, False, False, False, True]),
                                      "twin": st.sampled_from([False, False, False, False, False, True])})
        gap = st.one_of(
            st.tuples(st.just("del"), st.integers(0, 5)).map(list),
            st.tuples(st.just("create"), st.sampled_from([p[0] for p in pop])).map(list),
            st.tuples(st.just("delset"), st.integers(0, 5), st.integers(0, 5)).map(list),
            st.just(["configure"]),
            st.tuples(st.just("state"), st.integers(0, 5)).map(list),
        )
        script = []
        for g in range(nsteps):
            step_ = {"sends": draw(st.lists(send, max_size=4)), "gap": draw(st.lists(gap, max_size=2))}
            if draw(st.integers(0, 4)) == 0:
                step_["actdel"] = [[draw(st.integers(0, 5)), draw(st.integers(0, 2))]]
            script.append(step_)
        case = {"mode": mode, "dt": dt, "pop": pop, "script": script, "collect": draw(st.booleans())}
        if mode == "run":
            case["rounds"] = rounds
        else:
            case["nsteps"] = nsteps
        return case
    return build()


def plan(tier):
    n = 300 if tier == "quick" else 3000
    ms = 12 if tier == "quick" else 40
    return [{"n": n, "max_steps": ms} for _ in range(16)]


def run_shard(spec, ctx):
    ctx.hyp(case_strategy(spec["max_steps"]), _body(ctx), spec["n"])
