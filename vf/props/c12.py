"""C12 - an agent-based run executes every step once, in order, for every agent.

Generator: start/stop ints, dt with integer 1/dt, populations of 1-3 types, creations/deletions
between steps, data collection on/off, four driving modes (run() after run_specs/configure,
run() after passing run specs to the Model constructor, externally driven run_step, bptk.run_scenarios).
Oracle: the expected call log written down from the statement.
"""
from hypothesis import strategies as st

from vf.runner import Violation

ID = "C12"
LEVEL = "exploration"
TECHNIQUE = "generated ABM configurations (Hypothesis) with instrumented Model/Agent/DataCollector subclasses vs expected call log"
RULE = ("cases = (start in -4..6, stop >= start incl. stop <= 0, dt in {1,1/2,1/4,1/5,1/8,1/10,1/20}, population, per-step create/delete actions, collect_data, "
        "driving mode in {run after configure, run after constructor run specs, external run_step, bptk.run_scenarios with one or two scenarios of the manager in one call, a bptk session over two managers}, progress display on/off); the recorded "
        "sequence of begin_round / handle_events / act / end_round / statistics calls must equal the sequence the statement "
        "prescribes, with time = round + step*dt. non-trivial = 1/dt > 1 or the population changes during the run; distinct by case")
ASSUMPTIONS = [
    "population changes are made in the model's end_round callback, or by an agent that removes itself or an agent created before it while it acts (all agents that were live at the start of the step still act once)",
    "for externally driven run_step only collect_data=True is generated (the 'final step' is a notion of whole runs)",
]

DTS = [1, 0.5, 0.25, 0.2, 0.125, 0.1, 0.05]


def _classes():
    from BPTK_Py import Agent, DataCollector, Model

    class Col(DataCollector):
        def __init__(self):
            super().__init__()
            self.calllog = None

        def collect_agent_statistics(self, time, agents):
            if self.calllog is not None:
                self.calllog.append(["stats", time, [a.id for a in agents]])
            return super().collect_agent_statistics(time, agents)

    class Ag(Agent):
        def initialize(self):
            self.agent_type = self.properties.get("kind", {}).get("value", "A") if self.properties else "A"
            self.state = "active"

        def handle_events(self, time, sim_round, step):
            self.model.calllog.append(["handle", self.id, time])
            return super().handle_events(time, sim_round, step)

        def act(self, time, round_no, step_no):
            self.model.calllog.append(["act", self.id, time])
            # an agent may remove itself or an agent created before it while the step is running
            live = self.model.__dict__.get("step_live", [])
            for actor_pos, back in self.model.__dict__.get("actdel", {}).get(self.model.gcount, []):
                if live and live[actor_pos % len(live)] == self.id:
                    idx = actor_pos % len(live)
                    self.model.delete_agent(live[max(0, idx - back)])

    class M(Model):
        def instantiate_model(self):
            if "calllog" not in self.__dict__:
                self.__dict__["calllog"] = []
                self.__dict__["gaps"] = {}
                self.__dict__["gcount"] = 0
            for ty in ("A", "B", "C"):
                self.register_agent_factory(ty, lambda agent_id, model, properties, ty=ty: _mk(Ag, agent_id, model, ty))
            if isinstance(self.data_collector, Col):
                self.data_collector.calllog = self.calllog

        def begin_round(self, time, sim_round, step):
            self.calllog.append(["begin", time, sim_round, step])
            self.__dict__["step_live"] = [a.id for a in self.agents]

        def end_round(self, time, sim_round, step):
            self.calllog.append(["end", time, sim_round, step])
            for act in self.gaps.get(self.gcount, []):
                ids = [a.id for a in self.agents]
                if act[0] == "create":
                    self.create_agent(act[1], None)
                elif act[0] == "del" and ids:
                    self.delete_agent(ids[act[1] % len(ids)])
            self.__dict__["gcount"] = self.gcount + 1

    def _mk(cls, agent_id, model, ty):
        a = cls(agent_id, model, {"kind": {"type": "String", "value": ty}})
        return a

    return M, Ag, Col


def _expected(case, live0, next_id):
    """expected call log, from the statement"""
    start, stop, dt = case["start"], case["stop"], case["dt"]
    per = int(round(1 / dt))
    live = list(live0)
    log = []
    times = []
    g = 0
    gaps = {int(k): v for k, v in case.get("gaps", {}).items()}
    actdel = {int(k): v for k, v in case.get("actdel", {}).items()}
    if case["mode"] == "steps":
        steps = [(0, s) for s in range(case["nsteps"])]
    else:
        steps = [(r, s) for r in range(start, stop + 1) for s in range(per)]
    for idx, (r, s) in enumerate(steps):
        time = r + s * dt
        log.append(["begin", time, r, s])
        for i in live:
            log.append(["handle", i, time])
            log.append(["act", i, time])
        log.append(["end", time, r, s])
        start_live = list(live)
        for actor_pos, back in actdel.get(g, []):
            if start_live:
                aidx = actor_pos % len(start_live)
                victim = start_live[max(0, aidx - back)]
                if victim in live:
                    live.remove(victim)
        for act in gaps.get(g, []):
            if act[0] == "create":
                live.append(next_id)
                next_id += 1
            elif act[0] == "del" and live:
                live.pop(act[1] % len(live))
        g += 1
        final = idx == len(steps) - 1
        if case["collect"] or (final and case["mode"] != "steps"):
            log.append(["stats", time, list(live)])
            times.append(time)
    return log, times


def check_bptk_session(case):
    """externally driven single steps through bptk.begin_session / run_step with two agent-based managers that use the same
    scenario name: every run_step call must execute exactly one step in each scenario"""
    from BPTK_Py import SimultaneousScheduler, bptk

    M, Ag, Col = _classes()
    vs = []
    info = {}
    start, stop, dt = case["start"], case["stop"], case["dt"]
    pop = [{"name": t, "count": c} for t, c in case["pop"]]
    b = bptk()
    try:
        models = {}
        for mgr in ("smA", "smB"):
            base = M(name="c12", scheduler=SimultaneousScheduler(), data_collector=Col())
            base.instantiate_model()
            b.register_scenario_manager({mgr: {"type": "abm", "model": base, "scenarios": {
                "sc": {"runspecs": {"starttime": start, "stoptime": stop, "dt": dt}, "properties": {}, "agents": pop}}}})
            m = b.get_scenario(mgr, "sc")
            m.__dict__["calllog"] = []
            m.data_collector.calllog = m.calllog
            m.__dict__["gaps"] = {}
            m.__dict__["actdel"] = {}
            m.__dict__["gcount"] = 0
            models[mgr] = m
        try:
            b.begin_session(scenarios=["sc"], scenario_managers=["smA", "smB"], agents=["A"], agent_states=["active"])
            k = case["nsteps"]
            for _ in range(k):
                r = b.run_step()
                if r is None or "msg" in (r or {}):
                    k = _
                    break
        except Exception as e:
            vs.append(Violation("crash:%s:bptk-session" % type(e).__name__, "session raised %r" % (e,)))
            return info, vs
        for mgr, m in models.items():
            begins = [e for e in m.calllog if e[0] == "begin"]
            acts = {}
            for e in m.calllog:
                if e[0] == "act":
                    acts[(e[1], e[2])] = acts.get((e[1], e[2]), 0) + 1
            if len(begins) != k:
                vs.append(Violation("bptk-session:steps-per-call", "%d run_step calls executed %d steps in scenario %s/sc (times %r)"
                                    % (k, len(begins), mgr, [e[1] for e in begins])))
                break
            if any(v != 1 for v in acts.values()):
                vs.append(Violation("bptk-session:acts-per-step", "agents acted %r times per step in %s/sc" % (sorted(set(acts.values())), mgr)))
                break
            times = [e[1] for e in begins]
            if times != sorted(times) or len(set(times)) != len(times):
                vs.append(Violation("bptk-session:order", "step times %r in %s/sc" % (times, mgr)))
                break
    finally:
        b.destroy()
    return info, vs


def check_case(case):
    from BPTK_Py import SimultaneousScheduler, bptk

    if case["mode"] == "bptk-session":
        return check_bptk_session(case)

    M, Ag, Col = _classes()
    vs = []
    mode = case["mode"]
    start, stop, dt = case["start"], case["stop"], case["dt"]
    gaps = {int(k): v for k, v in case.get("gaps", {}).items()}
    pop = [{"name": t, "count": c} for t, c in case["pop"]]
    info = {}
    b = None
    others = []
    try:
        if mode == "run-constructor":
            m = M(starttime=start, stoptime=stop, dt=dt, name="c12", scheduler=SimultaneousScheduler(), data_collector=Col())
            m.instantiate_model()
            m.configure_agents(pop)
        elif mode == "bptk":
            base = M(name="c12", scheduler=SimultaneousScheduler(), data_collector=Col())
            base.instantiate_model()
            b = bptk()
            scen = {"sc": {"runspecs": {"starttime": start, "stoptime": stop, "dt": dt}, "properties": {}, "agents": pop}}
            if case.get("two_scenarios"):
                # a second scenario of the same manager with a larger population, run in the same call
                scen["sc2"] = {"runspecs": {"starttime": start, "stoptime": stop, "dt": dt}, "properties": {},
                               "agents": [{"name": t, "count": c + 1} for t, c in case["pop"]]}
            b.register_scenario_manager({"smABM": {"type": "abm", "model": base, "scenarios": scen}})
            m = b.get_scenario("smABM", "sc")
            # the deep copy must own its log
            m.__dict__["calllog"] = []
            m.data_collector.calllog = m.calllog
            if case.get("two_scenarios"):
                other = b.get_scenario("smABM", "sc2")
                other.__dict__["calllog"] = []
                other.data_collector.calllog = other.calllog
                other.__dict__["gaps"] = gaps
                other.__dict__["actdel"] = {int(k): v for k, v in case.get("actdel", {}).items()}
                other.__dict__["gcount"] = 0
                others.append((other, [a.id for a in other.agents], other.next_agent_id))
        else:
            m = M(name="c12", scheduler=SimultaneousScheduler(), data_collector=Col())
            m.instantiate_model()
            m.configure({"runspecs": {"starttime": start, "stoptime": stop, "dt": dt}, "properties": {}, "agents": pop})
        m.__dict__["gaps"] = gaps
        m.__dict__["actdel"] = {int(k): v for k, v in case.get("actdel", {}).items()}
        m.__dict__["gcount"] = 0
        live0 = [a.id for a in m.agents]
        next_id = m.next_agent_id
        want, want_times = _expected(case, live0, next_id)
        try:
            if mode == "steps":
                for g in range(case["nsteps"]):
                    m.run_step(g, collect_data=True)
            elif mode == "bptk":
                df = b.run_scenarios(scenarios=["sc", "sc2"] if others else ["sc"], scenario_managers=["smABM"], agents=["A"], agent_states=["active"],
                                     return_format="df")
                info["df_len"] = None if df is None else len(df)
                if df is None or len(df) != len(want_times) or [float(x) for x in df.index] != want_times:
                    vs.append(Violation("bptk:statistics-times", "run_scenarios returned index %r, expected %r"
                                        % (None if df is None else list(df.index)[-4:], want_times[-4:])))
            elif case.get("progress"):
                import contextlib
                import io
                with contextlib.redirect_stdout(io.StringIO()):  # outside a notebook the progress bar is printed
                    m.run(show_progress_widget=True, collect_data=case["collect"])
            else:
                m.run(collect_data=case["collect"])
        except Exception as e:
            vs.append(Violation("crash:%s:%s" % (type(e).__name__, mode), "run aborted with %r (start=%r stop=%r dt=%r)" % (e, start, stop, dt)))
            return info, vs
        got = m.calllog
        if got != want:
            pos = next((i for i, (a, c) in enumerate(zip(got, want)) if a != c), min(len(got), len(want)))
            g_e = got[pos] if pos < len(got) else None
            w_e = want[pos] if pos < len(want) else None
            kind = "length" if (g_e is None or w_e is None) else ("%s-vs-%s" % (g_e[0], w_e[0]) if g_e[0] != w_e[0] else g_e[0] + "-args")
            vs.append(Violation("calllog:" + kind, "call log differs at position %d: got %r expected %r (lengths %d / %d); case %r"
                                % (pos, g_e, w_e, len(got), len(want), {k: case[k] for k in ("mode", "start", "stop", "dt", "collect")})))
        keys = list(m.statistics().keys())
        if keys != want_times:
            vs.append(Violation("statistics-keys", "agent_statistics keys %r expected %r" % (keys[-4:], want_times[-4:])))
        for other, live_o, next_o in others:
            want_o, times_o = _expected(case, live_o, next_o)
            if other.calllog != want_o:
                pos = next((i for i, (a, c) in enumerate(zip(other.calllog, want_o)) if a != c), min(len(other.calllog), len(want_o)))
                vs.append(Violation("calllog:second-scenario", "call log of the second scenario differs at position %d: got %r expected %r (lengths %d / %d)"
                                    % (pos, other.calllog[pos] if pos < len(other.calllog) else None, want_o[pos] if pos < len(want_o) else None,
                                       len(other.calllog), len(want_o))))
            if list(other.statistics().keys()) != times_o:
                vs.append(Violation("statistics-keys:second-scenario", "agent_statistics keys of the second scenario %r expected %r"
                                    % (list(other.statistics().keys())[-4:], times_o[-4:])))
    finally:
        if b is not None:
            b.destroy()
    return info, vs


def _body(ctx):
    def body(case):
        info, vs = check_case(case)
        nt = case["dt"] != 1 or bool(case.get("gaps")) or bool(case.get("actdel"))
        labels = ["mode:" + case["mode"], "dt:%s" % case["dt"], "collect:%s" % case["collect"]]
        if case.get("two_scenarios"):
            labels.append("two-scenarios-in-one-call")
        if case.get("progress"):
            labels.append("with-progress-display")
        if case.get("gaps"):
            labels.append("population-changes")
        if case.get("actdel"):
            labels.append("deletion-during-act")
        ctx.case(case, nontrivial=nt, labels=labels, key=case)
        ctx.report(vs)
    return body


def case_strategy():
    @st.composite
    def build(draw):
        mode = draw(st.sampled_from(["run-configure", "run-configure", "run-constructor", "steps", "bptk", "bptk-session"]))
        dt = draw(st.sampled_from(DTS))
        per = int(round(1 / dt))
        start = draw(st.integers(-4, 6))
        stop = draw(st.integers(start, start + draw(st.integers(0, 6))))
        ntypes = draw(st.integers(1, 3))
        pop = [[t, draw(st.integers(1 if (mode in ("bptk", "bptk-session") and t == "A") else 0, 3))] for t in ["A", "B", "C"][:ntypes]]
        case = {"mode": mode, "start": start, "stop": stop, "dt": dt, "pop": pop,
                "collect": True if mode in ("steps", "bptk", "bptk-session") else draw(st.booleans())}
        if mode == "bptk":
            case["two_scenarios"] = draw(st.booleans())
        if mode in ("run-configure", "run-constructor"):
            case["progress"] = draw(st.sampled_from([False, False, True]))
        if mode == "bptk-session":
            case["nsteps"] = draw(st.integers(1, 5))
            case["gaps"] = {}
            case["actdel"] = {}
            return case
        if mode == "steps":
            case["nsteps"] = draw(st.integers(1, 30))
            total = case["nsteps"]
        else:
            total = (stop - start + 1) * per
        gaps = {}
        if mode != "bptk" or True:
            for _ in range(draw(st.integers(0, 4))):
                g = draw(st.integers(0, max(0, total - 1)))
                create = st.tuples(st.just("create"), st.sampled_from(["A", "B", "C"][:ntypes])).map(list)
                # bptk mode asks for the 'A' statistics: keep at least one A alive (no deletions there)
                act = draw(create if mode == "bptk" else st.one_of(create, st.tuples(st.just("del"), st.integers(0, 5)).map(list)))
                gaps.setdefault(str(g), []).append(act)
        case["gaps"] = gaps
        actdel = {}
        if mode != "bptk":
            for _ in range(draw(st.integers(0, 2))):
                g = draw(st.integers(0, max(0, total - 1)))
                actdel.setdefault(str(g), []).append([draw(st.integers(0, 5)), draw(st.integers(0, 2))])
        case["actdel"] = actdel
        return case
    return build()


def plan(tier):
    n = 250 if tier == "quick" else 2500
    return [{"n": n} for _ in range(16)]


def run_shard(spec, ctx):
    ctx.hyp(case_strategy(), _body(ctx), spec["n"])
