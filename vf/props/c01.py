"""C01 - SD DSL simulation equals the explicit-Euler solution of the model.

Generator: vf.sdmodel.model_strategy (acyclic stock-and-flow graphs with feedback through stocks,
built-ins forced by one_of weights) x run specs (binary and decimal dt, several start times).
Oracle: vf.sdmodel.RefModel, an independent forward Euler sweep over the decimal grid.
Read three ways: Element.__call__, Element.plot(return_df=True), bptk.run_scenarios after register_model.
"""
from vf import expr as E
from vf import sdmodel as SM
from vf.runner import Violation

ID = "C01"
LEVEL = "exploration"
TECHNIQUE = "generated stock-and-flow models (Hypothesis) simulated through the DSL vs an independent explicit-Euler interpreter"
RULE = ("cases = abstract models (1-3 stocks, 2-6 flows/biflows/converters, 1-3 constants, lookups, delay, smooth, trend, step, "
        "pulse, time/dt/starttime/stoptime, sinwave/coswave; built-ins and plain functions of elements also directly in stock equations, literals with up to 10 significant digits) x (start, dt, n), a quarter of the models built under other run specs and re-specified with Model.run_specs; a fresh model is queried top-down, the evaluated model is re-parameterised (initial values, then constants) and compared again; every "
        "element at every grid time read via element(t), element.plot and bptk.run_scenarios must equal the reference within 1e-9 "
        "relative. non-trivial = at least one stock fed by a non-constant flow and n >= 3 and the reference is well-conditioned; "
        "distinct by canonical hash of (model, run spec)")
ASSUMPTIONS = [
    "step(h, t0) = h for t > t0, else 0 (pinned by tests/test_sddsl.py); pulse = volume/dt at first + k*interval (binary dt only)",
    "delay(x, k*dt, init) = x at index i-k, init (or x at start when omitted) before; durations are multiples of dt",
    "smooth/trend = first-order exponential average s += dt*(x-s)/T with the given initial value",
    "ill-conditioned references (comparison ties within 1e-6, |v| > 1e9, division by ~0) are discarded and counted",
    "values compared with relative tolerance 1e-9 (or absolutely within 1e-13 * largest trajectory magnitude * (n+1) where sums cancel); grid labels exactly",
]


def _flow_nonconstant(case):
    consts = set(c["name"] for c in case["constants"])
    auxd = {a["name"]: a for a in case["aux"]}

    def nonconst(t):
        if not isinstance(t, list) or not t:
            return False
        if t[0] == "ref":
            if t[1] in consts:
                return False
            if t[1] in auxd:
                return nonconst(auxd[t[1]]["eq"])
            return True  # stock
        if t[0] in ("time", "step", "pulse", "sinwave", "coswave", "delay", "smooth", "trend"):
            return True
        if t[0] == "lookup":
            return nonconst(t[1])
        return any(nonconst(c) for c in E.children(t))
    return any(nonconst(s["eq"]) for s in case["stocks"])


def compare(name, got_map, ref, grid, vs, how, case):
    """got_map: dict name -> list of values aligned with grid"""
    scale = SM.model_scale(ref)
    for el, vals in got_map.items():
        want = ref[el]
        if len(vals) != len(want):
            vs.append(Violation("grid:%s" % how, "%s: %d values for %s, expected %d" % (how, len(vals), el, len(want))))
            return
        for i, (g, w) in enumerate(zip(vals, want)):
            if not SM.values_agree(g, w, scale, case["n"]):
                kinds = {a["name"]: a["kind"] for a in case["aux"]}
                kind = kinds.get(el, "stock" if el.startswith("s") else "constant")
                feats = sorted(SM.features(case) - {"converter", "flow", "biflow"})
                vs.append(Violation("%s:%s:%s" % ("value-after-reparam" if name == "reparam" else "value", kind, "+".join(feats) if feats else "arith"),
                                    "%s: %s at t=%r (index %d) is %r, Euler reference %r; model %r" % (how, el, grid[i], i, g, w, SM.sym_show(case))))
                return


def check_case(case, how=("topdown", "call", "plot", "batch")):
    from BPTK_Py import bptk

    info = {"status": "ok"}
    vs = []
    try:
        ref = SM.RefModel(case, limit=1e9).run()
    except E.Fragile as e:
        info["status"] = "fragile:" + str(e).split(":")[0]
        return info, vs
    grid = SM.grid(case)
    names = SM.element_names(case)
    try:
        model, elems = SM.build_dsl(case, name="c01")
    except Exception as e:
        # the DSL rejected the expression at construction (e.g. abs(<number>)): no model, nothing to compare
        info["status"] = "dsl-rejected:" + type(e).__name__
        return info, vs
    try:
        if "topdown" in how and case["n"] <= 60:
            # a fresh model queried top-down: the last grid point first (empty memo, t-dt chains all the way to the start)
            m2, e2 = SM.build_dsl(case, name="c01td")
            got = {nm: [e2[nm](grid[-1])] for nm in names}
            want_last = {nm: [ref[nm][-1]] for nm in names}
            compare("topdown", got, want_last, grid[-1:], vs, "fresh model, element(stop) first", case)
            if not vs:
                mid = len(grid) // 2
                got = {nm: [e2[nm](grid[mid])] for nm in names}
                compare("topdown", got, {nm: [ref[nm][mid]] for nm in names}, [grid[mid]], vs, "fresh model, element(mid) after element(stop)", case)
        if "call" in how and not vs:
            got = {nm: [elems[nm](t) for t in grid] for nm in names}
            compare("call", got, ref, grid, vs, "element(t)", case)
        if "call" in how and not vs and case.get("reparam", True):
            # the model is re-parameterised after it has been evaluated - first numeric initial values, then constants -
            # and after each change the simulation must be the Euler solution of the model as it is now
            import copy
            case2 = copy.deepcopy(case)
            for which in ("init", "const"):
                changed = []
                if which == "init":
                    for i, s_ in enumerate(case2["stocks"]):
                        if not isinstance(s_["init"], list):
                            s_["init"] = float(s_["init"]) + 1.5 + i
                            changed.append(s_)
                else:
                    for i, c_ in enumerate(case2["constants"]):
                        if c_["value"] is not None and i % 2 == 0:
                            c_["value"] = float(c_["value"]) * 0.5 + 0.25
                            changed.append(c_)
                if not changed or vs:
                    continue
                try:
                    ref2 = SM.RefModel(case2, limit=1e9).run()
                except E.Fragile:
                    break
                for x in changed:
                    if which == "init":
                        elems[x["name"]].initial_value = float(x["init"])
                    else:
                        elems[x["name"]].equation = x["value"]
                got = {nm: [elems[nm](t) for t in grid] for nm in names}
                compare("reparam", got, ref2, grid, vs, "element(t) after new %s on an evaluated model" % ("initial values" if which == "init" else "constants"), case)
                info["reparam"] = True
            # back to the generated parameters for the remaining observation points
            for s_ in case["stocks"]:
                if not isinstance(s_["init"], list):
                    elems[s_["name"]].initial_value = float(s_["init"])
            for c_ in case["constants"]:
                if c_["value"] is not None:
                    elems[c_["name"]].equation = c_["value"]
        if "plot" in how and not vs:
            got = {}
            for nm in names:
                df = elems[nm].plot(return_df=True)
                if [float(x) for x in df.index] != grid:
                    vs.append(Violation("grid:plot", "plot index %r expected %r" % (list(df.index)[-3:], grid[-3:])))
                    break
                got[nm] = [float(x) for x in df[nm]]
            if not vs:
                compare("plot", got, ref, grid, vs, "element.plot", case)
        if "batch" in how and not vs:
            b = bptk()
            try:
                b.register_model(model, scenario_manager="smC01")
                df = b.run_scenarios(scenarios=["base"], scenario_managers=["smC01"], equations=names, return_format="df")
                if df is None or [float(x) for x in df.index] != grid:
                    vs.append(Violation("grid:batch", "run_scenarios index %r expected %r" % (None if df is None else list(df.index)[-3:], grid[-3:])))
                else:
                    got = {nm: [float(x) for x in df[nm]] for nm in names}
                    compare("batch", got, ref, grid, vs, "run_scenarios", case)
            finally:
                b.destroy()
    except RecursionError as e:
        # the generated models are acyclic and short (the unchanged tree never gets near the recursion limit on them): an
        # evaluation that does not terminate is a failure to report the Euler value
        feats = sorted(SM.features(case) - {"converter", "flow", "biflow"})
        vs.append(Violation("eval-crash:RecursionError:%s" % "+".join(feats), "evaluation did not terminate (%r); model %r" % (e, SM.sym_show(case))))
    except Exception as e:
        feats = sorted(SM.features(case) - {"converter", "flow", "biflow"})
        vs.append(Violation("eval-crash:%s:%s" % (type(e).__name__, "+".join(feats)), "evaluation raised %r; model %r" % (e, SM.sym_show(case))))
    return info, vs


def _body(ctx):
    def body(case):
        info, vs = check_case(case)
        if info["status"] != "ok":
            ctx.discard(info["status"])
            return
        feats = SM.features(case)
        nt = _flow_nonconstant(case) and case["n"] >= 3
        labels = ["has:" + f for f in sorted(feats)] + ["dt:" + ("binary" if case["dt"] in SM.BINARY_DT else "decimal")] + (["reparam-after-evaluation"] if info.get("reparam") else [])
        ctx.case(SM.sym_show(case), nontrivial=nt, labels=labels, key=case)
        ctx.report(vs)
    return body


def plan(tier):
    n = 100 if tier == "quick" else 2500
    mn = 30 if tier == "quick" else 120
    specs = []
    for i in range(16):
        # half of the shards use every built-in, the others focus on one family each so that single-feature models are common
        focus = [None, {"lookup"}, {"delay"}, {"smooth"}, {"trend"}, {"step", "time"}, {"pulse"}, {"sinwave"}][i % 8]
        if i == 8:
            # hardly any built-in: plain functions of elements (min, max, abs, If, arithmetic) dominate, also inside stock equations
            focus = {"time"}
        specs.append({"n": n, "max_n": mn, "allow": sorted(focus) if focus else None})
    return specs


def run_shard(spec, ctx):
    allow = set(spec["allow"]) if spec["allow"] else None
    ctx.hyp(SM.model_strategy(max_n=spec["max_n"], allow=allow), _body(ctx), spec["n"])
