"""C15 - with a bearer token set, protected endpoints serve and change nothing without it.

Generator: every rule and method of the live app.url_map x instance-id kind x credential shape x
body shape x server state (bounded-exhaustive) + random header/body values (Hypothesis).
Oracle: a request without exactly the configured token gets a non-2xx status on every non-public
route, and a deep snapshot of the server taken before and after the request is identical.
Non-triviality is established by replaying the same request *with* the token on an identically
built twin server and observing that it does change state.
"""
import copy
import hashlib
import itertools
import json
import os
import shutil
import tempfile
import threading

from hypothesis import strategies as st

from vf.runner import Violation

ID = "C15"
LEVEL = "exploration"
TECHNIQUE = "bounded-exhaustive route table from the live url_map x credential shapes x server states + random headers/bodies (Hypothesis); state-snapshot invariant; authorised twin replay"
RULE = ("cases = (rule, method) from the live url_map x instance id kind {live, locked, externalised-only, garbage} x credential shape "
        "(absent, empty, 'Bearer', wrong / prefix / suffix / case variants, no scheme, token in other header / query / body, lower-case scheme "
        "+ wrong token, long, non-ASCII) x body {none, valid JSON for the route, malformed} x server state {empty, live session, locked "
        "session} x {no adapter, FileAdapter}; refused = status not 2xx and snapshot (instances, session states, scenario settings, "
        "timestamps, adapter directory, threads) unchanged. non-trivial = refused request whose authorised twin changes the snapshot; "
        "distinct by (rule, method, id kind, credential, body, state)")
ASSUMPTIONS = [
    "public routes are /, /healthy, /metrics, /full-metrics (they form the control group and must answer 200)",
    "OPTIONS is answered by Flask itself without calling a handler and is not an endpoint of the application; Flask's static route has no handler of the application either (it must still not succeed)",
    "credentials that contain the exact token as the second blank-separated word (other scheme name, or trailing words) are not generated: the statement does not say they must be refused",
    "a 4xx/5xx of any kind counts as a refusal",
]
EXHAUSTIVE_SCOPE = "route table x id kinds x credential shapes x bodies x server states as enumerated by c15.combos()"

TOKEN = "s3cr3t-Token_42"
PUBLIC = {"/", "/healthy", "/metrics", "/full-metrics"}
SM, SC = "smC15", "base"

CRED_SHAPES = ["absent", "empty", "scheme-only", "scheme-space", "wrong", "prefix", "suffix", "upper", "lower", "padded-front",
               "no-scheme", "other-header", "query", "body", "lower-scheme-wrong", "long", "non-ascii", "tab-separated"]


def cred_headers(shape):
    """returns (headers, query, body_extra)"""
    t = TOKEN
    h, q, bx = {}, {}, {}
    if shape == "absent":
        pass
    elif shape == "empty":
        h["Authorization"] = ""
    elif shape == "scheme-only":
        h["Authorization"] = "Bearer"
    elif shape == "scheme-space":
        h["Authorization"] = "Bearer "
    elif shape == "wrong":
        h["Authorization"] = "Bearer not-the-token"
    elif shape == "prefix":
        h["Authorization"] = "Bearer " + t[:-1]
    elif shape == "suffix":
        h["Authorization"] = "Bearer " + t + "x"
    elif shape == "upper":
        h["Authorization"] = "Bearer " + t.upper()
    elif shape == "lower":
        h["Authorization"] = "Bearer " + t.lower()
    elif shape == "padded-front":
        h["Authorization"] = "Bearer  " + t  # two blanks: the second word is empty
    elif shape == "no-scheme":
        h["Authorization"] = t
    elif shape == "other-header":
        h["X-Authorization"] = "Bearer " + t
        h["Token"] = t
    elif shape == "query":
        q["token"] = t
        q["Authorization"] = "Bearer " + t
    elif shape == "body":
        bx["token"] = t
        bx["Authorization"] = "Bearer " + t
    elif shape == "lower-scheme-wrong":
        h["Authorization"] = "bearer wrong"
    elif shape == "long":
        h["Authorization"] = "Bearer " + "A" * 5000
    elif shape == "non-ascii":
        h["Authorization"] = "Bearer töken"
    elif shape == "tab-separated":
        h["Authorization"] = "Bearer\t" + t
    return h, q, bx


def make_factory():
    def factory():
        from BPTK_Py import Model, bptk
        m = Model(starttime=1.0, stoptime=10.0, dt=1.0, name="c15")
        s = m.stock("s")
        f = m.flow("f")
        k = m.constant("k")
        k.equation = 2.0
        f.equation = k * 1.0
        s.equation = f
        s.initial_value = 0.0
        b = bptk()
        b.register_model(m, scenario_manager=SM)
        return b
    return factory


class World:
    """a server in one of the generated states"""

    def __init__(self, state, adapter):
        from BPTK_Py import BptkServer, FileAdapter
        self.dir = None
        ad = None
        if adapter:
            self.dir = tempfile.mkdtemp(prefix="c15_", dir=".")
            ad = FileAdapter(False, self.dir)
        self.app = BptkServer(__name__, bptk_factory=make_factory(), external_state_adapter=ad, bearer_token=TOKEN)
        self.app.logger.disabled = True
        self.client = self.app.test_client()
        self.auth = {"Authorization": "Bearer " + TOKEN}
        self.ids = {"garbage": "deadbeef00"}
        if state in ("live", "locked"):
            for kind in ("live", "locked"):
                iid = json.loads(self.client.post("/start-instance", headers=self.auth).data)["instance_uuid"]
                self.client.post("/%s/begin-session" % iid, headers=self.auth,
                                 json={"scenario_managers": [SM], "scenarios": [SC], "equations": ["s", "f"]})
                self.client.post("/%s/run-step" % iid, headers=self.auth, json={"settings": {SM: {SC: {"constants": {"k": 3.0}}}}})
                self.client.post("/%s/run-step" % iid, headers=self.auth)
                self.ids[kind] = iid
            if state == "locked":
                self.app._instance_manager._instances[self.ids["locked"]]["instance"].lock()
            else:
                self.ids["locked"] = self.ids["live"]
            if adapter:
                # an instance that exists only in external state
                iid = json.loads(self.client.post("/start-instance", headers=self.auth).data)["instance_uuid"]
                self.client.post("/%s/begin-session" % iid, headers=self.auth,
                                 json={"scenario_managers": [SM], "scenarios": [SC], "equations": ["s"]})
                self.client.post("/%s/run-step" % iid, headers=self.auth)
                del self.app._instance_manager._instances[iid]
                self.ids["external"] = iid
        for k in ("live", "locked", "external"):
            self.ids.setdefault(k, "0123456789abcdef0123456789abcdef")

    def snapshot(self):
        im = self.app._instance_manager
        snap = {"instances": {}, "threads": threading.active_count()}
        for iid, rec in im._instances.items():
            inst = rec["instance"]
            scen = {}
            for mn, mgr in inst.scenario_manager_factory.scenario_managers.items():
                for sn, sc in mgr.scenarios.items():
                    scen[mn + "/" + sn] = {"constants": copy.deepcopy(getattr(sc, "constants", None)), "points": copy.deepcopy(getattr(sc, "points", None)),
                                           "runspecs": (getattr(sc, "starttime", None), getattr(sc, "stoptime", None), getattr(sc, "dt", None)),
                                           "sim": getattr(sc, "sd_simulation", None) is not None,
                                           "memo": json.dumps({k: sorted(v.keys()) for k, v in sc.model.memo.items()}, default=repr) if hasattr(sc, "model") else None}
            snap["instances"][iid] = {"time": str(rec["time"]), "timeout": copy.deepcopy(rec["timeout"]),
                                      "session": repr(inst.session_state), "scenarios": scen}
        # the server-wide bptk used by /run etc.
        g = {}
        for mn, mgr in self.app._bptk.scenario_manager_factory.scenario_managers.items():
            for sn, sc in mgr.scenarios.items():
                g[mn + "/" + sn] = {"constants": copy.deepcopy(sc.constants), "points": copy.deepcopy(sc.points),
                                    "runspecs": (sc.starttime, sc.stoptime, sc.dt),
                                    "memo": json.dumps({k: sorted(v.keys()) for k, v in sc.model.memo.items()}, default=repr)}
        snap["global"] = g
        if self.dir:
            files = {}
            for fn in sorted(os.listdir(self.dir)):
                files[fn] = hashlib.sha1(open(os.path.join(self.dir, fn), "rb").read()).hexdigest()
            snap["files"] = files
        return snap

    def close(self):
        for rec in list(self.app._instance_manager._instances.values()):
            try:
                rec["instance"].destroy()
            except Exception:
                pass
        if self.dir:
            shutil.rmtree(self.dir, ignore_errors=True)


def routes(app):
    out = []
    for rule in app.url_map.iter_rules():
        for method in sorted(rule.methods - {"OPTIONS"}):
            out.append((rule.rule, method))
    return sorted(out)


VALID_BODIES = {
    "/run": {"scenario_managers": [SM], "scenarios": [SC], "equations": ["s"], "settings": {SM: {SC: {"constants": {"k": 9.0}}}}},
    "/equations": {"scenarioManager": SM, "scenario": SC},
    "/agents": {"scenarioManager": SM, "scenario": SC},
    "/start-instance": {"timeout": {"minutes": 5}},
    "/start-instances": {"instances": 2},
    "/<instance_uuid>/begin-session": {"scenario_managers": [SM], "scenarios": [SC], "equations": ["s"]},
    "/<instance_uuid>/run-step": {"settings": {SM: {SC: {"constants": {"k": 7.0}}}}},
    "/<instance_uuid>/run-steps": {"numberSteps": 2, "settings": {}},
    "/<instance_uuid>/stream-steps": {"settings": {}},
}


def do_request(world, rule, method, idkind, cred, body, token_ok=False, extra_headers=None):
    path = rule.replace("<instance_uuid>", world.ids.get(idkind, "x")).replace("<path:filename>", "x.txt")
    h, q, bx = ({"Authorization": "Bearer " + TOKEN}, {}, {}) if token_ok else cred_headers(cred)
    if extra_headers:
        h.update(extra_headers)
    kw = {"headers": h, "query_string": q}
    if body == "valid":
        data = dict(VALID_BODIES.get(rule, {"x": 1}))
        data.update(bx)
        kw["json"] = data
    elif body == "malformed":
        kw["data"] = '{"settings": '
        kw["content_type"] = "application/json"
    elif bx:
        kw["json"] = bx
    try:
        resp = world.client.open(path, method=method, **kw)
        # drain streamed bodies
        _ = resp.get_data()
        return resp.status_code, None
    except Exception as e:
        return None, e


def combos():
    from BPTK_Py import BptkServer
    app = BptkServer(__name__, bptk_factory=make_factory(), bearer_token=TOKEN)
    rts = routes(app)
    out = []
    for state, adapter in (("empty", False), ("live", False), ("live", True), ("locked", False), ("locked", True)):
        for rule, method in rts:
            idkinds = ["live", "locked", "external", "garbage"] if "<instance_uuid>" in rule else ["-"]
            if state == "empty":
                idkinds = ["garbage"] if "<instance_uuid>" in rule else ["-"]
            if not adapter:
                idkinds = [k for k in idkinds if k != "external"]
            for idkind in idkinds:
                for cred in CRED_SHAPES:
                    bodies = ["none", "valid", "malformed"] if method in ("POST", "PUT") else ["none"]
                    for body in bodies:
                        out.append({"state": state, "adapter": adapter, "rule": rule, "method": method, "id": idkind, "cred": cred, "body": body})
    return out


def check_group(cases, ctx=None):
    """cases share (state, adapter): one world + one twin"""
    vs = []
    results = []
    state, adapter = cases[0]["state"], cases[0]["adapter"]
    world = World(state, adapter)
    mutating = {}
    try:
        before = world.snapshot()
        for c in cases:
            public = c["rule"] in PUBLIC
            status, err = do_request(world, c["rule"], c["method"], c["id"], c["cred"], c["body"], extra_headers=c.get("extra_headers"))
            after = world.snapshot()
            key = (c["rule"], c["method"], c["id"], c["body"])
            nt = False
            if public:
                if status != 200:
                    vs.append(Violation("public-refused:" + c["rule"], "public route %s %s answered %r (%r) without token" % (c["method"], c["rule"], status, err)))
            else:
                if status is not None and 200 <= status < 300:
                    vs.append(Violation("served-without-token:%s:%s" % (c["rule"], c["cred"]),
                                        "%s %s (id=%s, credential shape %s, body %s, state %s) answered %d without the token"
                                        % (c["method"], c["rule"], c["id"], c["cred"], c["body"], state, status)))
                if after != before:
                    diff = _diff(before, after)
                    vs.append(Violation("state-changed:%s:%s" % (c["rule"], c["cred"]),
                                        "%s %s (id=%s, credential %s, body %s, state %s) was answered %r but changed server state: %s"
                                        % (c["method"], c["rule"], c["id"], c["cred"], c["body"], state, status, diff)))
                    before = after
                # is the authorised twin state-changing?
                if key not in mutating:
                    twin = World(state, adapter)
                    try:
                        b0 = twin.snapshot()
                        do_request(twin, c["rule"], c["method"], c["id"], c["cred"], c["body"], token_ok=True)
                        mutating[key] = twin.snapshot() != b0
                    finally:
                        twin.close()
                nt = mutating[key]
            results.append((c, status, nt))
    finally:
        world.close()
    return results, vs


def _diff(a, b):
    out = []
    for k in set(a) | set(b):
        if a.get(k) != b.get(k):
            if isinstance(a.get(k), dict) and isinstance(b.get(k), dict):
                for kk in set(a[k]) | set(b[k]):
                    if a[k].get(kk) != b[k].get(kk):
                        out.append("%s[%s]" % (k, kk))
            else:
                out.append(str(k))
    return ", ".join(sorted(out))[:400]


PROBE_CREDS = ["absent", "wrong", "no-scheme"]


def check_after(case):
    """a history: authorised requests (some of which fail inside their handler) followed by requests without the
    token on every route; each of those must be refused and change nothing"""
    state, adapter = case["state"], case["adapter"]
    world = World(state, adapter)
    vs, results = [], []
    try:
        pre = []
        for p in case["prelude"]:
            status, err = do_request(world, p["rule"], p["method"], p["id"], "absent", p["body"], token_ok=True)
            pre.append(status if err is None else "raised:" + type(err).__name__)
        before = world.snapshot()
        rts = routes(world.app)
        for rule, method in rts:
            if rule in PUBLIC or rule.startswith("/static"):
                continue
            for cred in case.get("probe_creds", PROBE_CREDS):
                for body in (["valid"] if method in ("POST", "PUT") else ["none"]):
                    status, err = do_request(world, rule, method, "live", cred, body)
                    if status is not None and 200 <= status < 300:
                        vs.append(Violation("served-without-token-after-auth:%s" % rule,
                                            "after the authorised requests %r (answers %r), %s %s with credential shape %s answered %d"
                                            % ([(p["method"], p["rule"], p["id"], p["body"]) for p in case["prelude"]], pre, method, rule, cred, status)))
                    after = world.snapshot()
                    if after != before:
                        vs.append(Violation("state-changed-after-auth:%s" % rule,
                                            "after the authorised requests %r (answers %r), %s %s with credential shape %s was answered %r and changed: %s"
                                            % ([(p["method"], p["rule"], p["id"], p["body"]) for p in case["prelude"]], pre, method, rule, cred, status, _diff(before, after))))
                        before = after
                    results.append(status)
    finally:
        world.close()
    seen = {}
    for v in vs:
        seen.setdefault(v.signature, v)
    return {"prelude_answers": pre, "probes": len(results)}, list(seen.values())


def check_case(case):
    if "prelude" in case:
        return check_after(case)
    results, vs = check_group([case])
    return {"status": results[0][1] if results else None}, vs


def _record(ctx, results):
    for c, status, nt in results:
        ctx.case({k: c[k] for k in ("state", "adapter", "rule", "method", "id", "cred", "body")} | {"status": status},
                 nontrivial=nt, labels=["state:%s%s" % (c["state"], "+adapter" if c["adapter"] else ""), "status:%s" % status,
                                        "public" if c["rule"] in PUBLIC else "protected"], key=c)


def plan(tier):
    specs = [{"kind": "enum", "part": i, "of": 14} for i in range(14)]
    specs += [{"kind": "random", "n": 60 if tier == "quick" else 1500} for _ in range(2)]
    specs += [{"kind": "after-enum", "part": i, "of": 4} for i in range(4)]
    specs += [{"kind": "after-random", "n": 40 if tier == "quick" else 1000} for _ in range(2)]
    return specs


def _after_body(ctx):
    def body(case):
        info, vs = check_after(case)
        failed = [a for a in info["prelude_answers"] if not (isinstance(a, int) and 200 <= a < 300)]
        ctx.case({"state": case["state"], "adapter": case["adapter"], "prelude": case["prelude"], "prelude_answers": info["prelude_answers"],
                  "probes": info["probes"]},
                 nontrivial=bool(failed), labels=["after-auth", "prelude-failed" if failed else "prelude-ok"], key=case)
        ctx.report(vs)
    return body


def run_shard(spec, ctx):
    if spec["kind"] == "after-enum":
        # every single authorised request (route x id kind x body shape) as the prelude
        preludes = []
        seen = set()
        for c in combos():
            if c["state"] != "live" or c["rule"] in PUBLIC:
                continue
            k = (c["adapter"], c["rule"], c["method"], c["id"], c["body"])
            if k in seen:
                continue
            seen.add(k)
            preludes.append({"state": "live", "adapter": c["adapter"], "prelude": [{"rule": c["rule"], "method": c["method"], "id": c["id"], "body": c["body"]}],
                             "probe_creds": ["absent"]})
        mine = [p for i, p in enumerate(preludes) if i % spec["of"] == spec["part"]]
        ctx.enum(mine, _after_body(ctx))
        ctx.exhaustive = True
        return
    if spec["kind"] == "after-random":
        cs = combos()
        rts = sorted(set((c["rule"], c["method"]) for c in cs if c["rule"] not in PUBLIC))
        req = st.fixed_dictionaries({"rm": st.sampled_from(rts), "id": st.sampled_from(["live", "locked", "external", "garbage"]),
                                     "body": st.sampled_from(["none", "valid", "malformed"])}).map(
            lambda d: {"rule": d["rm"][0], "method": d["rm"][1], "id": d["id"], "body": d["body"]})
        strat = st.fixed_dictionaries({"state": st.sampled_from(["live", "locked"]), "adapter": st.booleans(),
                                       "prelude": st.lists(req, min_size=1, max_size=5)})
        ctx.hyp(strat, _after_body(ctx), spec["n"])
        return
    if spec["kind"] == "enum":
        cs = combos()
        groups = {}
        for i, c in enumerate(cs):
            groups.setdefault((c["state"], c["adapter"], c["rule"], c["method"]), []).append(c)
        keys = sorted(groups, key=str)
        mine = [k for i, k in enumerate(keys) if i % spec["of"] == spec["part"]]
        ctx.extra["route_method_state_groups"] = len(mine)
        for k in mine:
            results, vs = check_group(groups[k])
            _record(ctx, results)
            for v in ctx.judge(vs):
                v.case = next((c for c, s, nt in results), None) if v.case is None else v.case
                ctx.add_violation(v)
        ctx.exhaustive = True
    else:
        cs = combos()
        rts = sorted(set((c["rule"], c["method"]) for c in cs))
        strat = st.fixed_dictionaries({
            "state": st.sampled_from(["empty", "live", "locked"]), "adapter": st.booleans(),
            "rm": st.sampled_from(rts), "id": st.sampled_from(["live", "locked", "external", "garbage"]),
            "cred": st.sampled_from(CRED_SHAPES), "body": st.sampled_from(["none", "valid", "malformed"]),
            "extra_headers": st.dictionaries(st.sampled_from(["Authorization", "X-Token", "Cookie", "authorization", "Proxy-Authorization"]),
                                             st.text(alphabet=st.characters(min_codepoint=32, max_codepoint=126), max_size=40).filter(
                                                 lambda s: TOKEN not in s.split(" ")[1:2]), max_size=2)})

        def body(case):
            c = dict(case)
            c["rule"], c["method"] = c.pop("rm")
            if c["extra_headers"].get("Authorization", None) is not None and len(c["extra_headers"]["Authorization"].split(" ")) > 1 \
                    and c["extra_headers"]["Authorization"].split(" ")[1] == TOKEN:
                return
            results, vs = check_group([c])
            _record(ctx, results)
            ctx.report(vs)
        ctx.hyp(strat, body, spec["n"])
