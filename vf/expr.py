"""Harness-side expression AST, reference evaluator, DSL lowering, printers.

Trees are JSON lists so that cases round-trip through replay files:
  ["num", v] ["ref", name] ["time"] ["dt"] ["starttime"] ["stoptime"] ["pi"]
  ["bin", op, l, r]   op in + - * / ** %
  ["neg", e]
  ["cmp", op, l, r]   op in > < >= <= == !=
  ["if", c, a, b] ["and", l, r] ["or", l, r] ["not", e]
  ["call", fn, [args]]   fn in min max abs sqrt exp round sin cos tan arctan
  ["agg", kind, arrayname, k]   kind in sum prod mean median stddev size rank

The reference evaluator uses plain Python arithmetic on the *tree structure*,
so grouping in the reference is by construction the grouping of the tree.
No BPTK_Py import in the reference part.
"""
import collections
import math
import statistics

BINOPS = ["+", "-", "*", "/", "**", "%"]
CMPOPS = [">", "<", ">=", "<=", "==", "!="]
CALLS1 = ["abs", "sqrt", "exp", "sin", "cos", "tan", "arctan"]
CALLS2 = ["min", "max", "round"]
BOOL_KINDS = ("cmp", "and", "or", "not")

MARGIN = 1e-6


class Fragile(Exception):
    """the reference value is ill-conditioned or undefined: the case is discarded"""


def is_bool_tree(t):
    return t[0] in BOOL_KINDS


NOTES = collections.Counter()  # how often the reference met a class of input worth counting (read and cleared by the checks)


class RefEval:
    """Reference evaluator. env: name -> float (or callable(name) -> float).
    Raises Fragile when a decision is too close to call or a value is not finite."""

    def __init__(self, env, time=None, dt=None, start=None, stop=None, arrays=None, limit=1e12, xmile=False):
        self.xmile = xmile
        self.env = env
        self.time = time
        self.dt = dt
        self.start = start
        self.stop = stop
        self.arrays = arrays or {}
        self.limit = limit

    def ref(self, name):
        v = self.env(name) if callable(self.env) else self.env[name]
        return v

    def _fin(self, v):
        if isinstance(v, complex):
            raise Fragile("complex")
        if isinstance(v, bool):
            return v
        if v != v or v in (math.inf, -math.inf) or abs(v) > self.limit:
            raise Fragile("non-finite")
        return v

    def _apart(self, a, b, what):
        """a and b must be clearly different or exactly equal dyadic-safe values"""
        if a == b:
            # equality is only trusted if both sides are 'nice' (multiples of 2^-20 of moderate size)
            for x in (a, b):
                if isinstance(x, bool):
                    continue
                if abs(x) > 2 ** 30 or (x * 2 ** 20) != math.floor(x * 2 ** 20):
                    raise Fragile("tie:" + what)
            return
        if abs(a - b) < MARGIN * max(1.0, abs(a), abs(b)):
            raise Fragile("close:" + what)

    def ev(self, t):
        k = t[0]
        if k == "num":
            return t[1]
        if k == "ref":
            return self.ref(t[1])
        if k == "time":
            return self.time
        if k == "dt":
            return self.dt
        if k == "starttime":
            return self.start
        if k == "stoptime":
            return self.stop
        if k == "pi":
            return math.pi
        if k == "bin":
            op = t[1]
            l = self.ev(t[2])
            r = self.ev(t[3])
            try:
                if op == "+":
                    v = l + r
                elif op == "-":
                    v = l - r
                elif op == "*":
                    v = l * r
                elif op == "/":
                    if abs(r) < MARGIN:
                        raise Fragile("div0")
                    v = l / r
                elif op == "**":
                    if l == 0 and r <= 0:
                        raise Fragile("0**neg")
                    if abs(l) < MARGIN and r != math.floor(r):
                        raise Fragile("pow-near-0")
                    if l < 0 and r != math.floor(r):
                        raise Fragile("complex")
                    if abs(r) > 64 or (abs(l) > 1 and abs(r) * math.log(abs(l)) > 27):
                        raise Fragile("pow-large")
                    v = l ** r
                elif op == "%":
                    if abs(r) < MARGIN:
                        raise Fragile("mod0")
                    if self.xmile and (l < 0 or r <= 0):
                        raise Fragile("mod-sign")  # XMILE tools disagree on the sign convention
                    q = l / r
                    self._apart(q, float(round(q)), "mod")
                    v = l % r
                else:
                    raise ValueError(op)
            except (ZeroDivisionError, OverflowError):
                raise Fragile("arith")
            return self._fin(v)
        if k == "neg":
            return -self.ev(t[1])
        if k == "cmp":
            op = t[1]
            l = self.ev(t[2])
            r = self.ev(t[3])
            self._apart(l, r, "cmp")
            return {">": l > r, "<": l < r, ">=": l >= r, "<=": l <= r, "==": l == r, "!=": l != r}[op]
        if k == "if":
            c = self.ev(t[1])
            # both branches are evaluated for conditioning purposes only where cheap: python
            # semantics evaluate one branch, and so does the DSL
            return self.ev(t[2]) if c else self.ev(t[3])
        if k == "and":
            l = self.ev(t[1])
            return self.ev(t[2]) if l else l
        if k == "or":
            l = self.ev(t[1])
            return l if l else self.ev(t[2])
        if k == "not":
            return not self.ev(t[1])
        if k == "call":
            fn = t[1]
            a = [self.ev(x) for x in t[2]]
            try:
                if fn == "abs":
                    return abs(a[0])
                if fn == "sqrt":
                    if a[0] < 0:
                        raise Fragile("sqrt-neg")
                    return math.sqrt(a[0])
                if fn == "exp":
                    if a[0] > 27:
                        raise Fragile("exp-large")
                    return math.exp(a[0])
                if fn == "sin":
                    return math.sin(a[0])
                if fn == "cos":
                    return math.cos(a[0])
                if fn == "tan":
                    if abs(math.cos(a[0])) < 1e-3:
                        raise Fragile("tan-pole")
                    return math.tan(a[0])
                if fn == "arctan":
                    return math.atan(a[0])
                if fn == "min":
                    self._apart(a[0], a[1], "min")
                    return min(a[0], a[1])
                if fn == "max":
                    self._apart(a[0], a[1], "max")
                    return max(a[0], a[1])
                if fn == "ln":
                    if a[0] <= MARGIN:
                        raise Fragile("ln-domain")
                    return math.log(a[0])
                if fn == "log10":
                    if a[0] <= MARGIN:
                        raise Fragile("log-domain")
                    return math.log10(a[0])
                if fn == "int":
                    # XMILE 1.0 (3.5.1): INT(x) is the largest integer <= x, also for negative x
                    if a[0] < 0 and a[0] != math.floor(a[0]):
                        NOTES["int-of-negative-fraction"] += 1
                    if abs(a[0] - round(a[0])) < 1e-6 and a[0] != round(a[0]):
                        raise Fragile("int-edge")
                    return math.floor(a[0])
                if fn == "percent":
                    return a[0] * 100
                if fn == "safediv":
                    if a[1] == 0:
                        return a[2] if len(a) > 2 else 0
                    if abs(a[1]) < MARGIN:
                        raise Fragile("safediv-near0")
                    return a[0] / a[1]
                if fn == "step":
                    return a[0] if self.time >= a[1] else 0
                if fn == "round" and len(a) == 1:
                    frac = a[0] - math.floor(a[0])
                    if abs(frac - 0.5) < 1e-3:
                        raise Fragile("round-tie")
                    return round(a[0])
                if fn == "round":
                    d = a[1]
                    if d != int(d) or not (0 <= d <= 4):
                        raise Fragile("round-digits")
                    x = a[0] * 10 ** int(d)
                    frac = x - math.floor(x)
                    if abs(frac - 0.5) < 1e-3:
                        raise Fragile("round-tie")
                    return round(a[0], int(d))
            except (OverflowError, ValueError):
                raise Fragile("call")
            raise ValueError(fn)
        if k == "agg":
            kind, arr = t[1], t[2]
            vals = flat(self.arrays[arr])
            if kind == "sum":
                return self._fin(math.fsum(vals))
            if kind == "prod":
                p = 1.0
                for v in vals:
                    p *= v
                return self._fin(p)
            if kind == "mean":
                return math.fsum(vals) / len(vals)
            if kind == "median":
                return statistics.median(vals)
            if kind == "stddev":
                return statistics.pstdev(vals)
            if kind == "size":
                return len(self.arrays[arr])
            if kind == "rank":
                s = sorted(vals, reverse=True)
                kk = t[3]
                return s[kk - 1]
        raise ValueError("unknown node %r" % (t,))


def flat(a):
    out = []
    for x in a:
        if isinstance(x, (list, tuple)):
            out.extend(flat(x))
        else:
            out.append(x)
    return out


def show(t):
    """python-like rendering of a tree, fully parenthesised (for samples / reports)"""
    k = t[0]
    if k == "num":
        return repr(t[1])
    if k == "ref":
        return t[1]
    if k in ("time", "dt", "starttime", "stoptime", "pi"):
        return k + "()"
    if k == "bin":
        return "(%s %s %s)" % (show(t[2]), t[1], show(t[3]))
    if k == "neg":
        return "(-%s)" % show(t[1])
    if k == "cmp":
        return "(%s %s %s)" % (show(t[2]), t[1], show(t[3]))
    if k == "if":
        return "If(%s, %s, %s)" % (show(t[1]), show(t[2]), show(t[3]))
    if k in ("and", "or"):
        return "%s(%s, %s)" % (k.capitalize(), show(t[1]), show(t[2]))
    if k == "not":
        return "Not(%s)" % show(t[1])
    if k == "call":
        return "%s(%s)" % (t[1], ", ".join(show(x) for x in t[2]))
    if k == "agg":
        return "%s.arr_%s(%s)" % (t[2], t[1], "" if t[1] != "rank" else t[3])
    return repr(t)


def size(t):
    if not isinstance(t, list):
        return 0
    return 1 + sum(size(x) if isinstance(x, list) and x and isinstance(x[0], str) else
                   (sum(size(y) for y in x) if isinstance(x, list) else 0) for x in t[1:])


def depth(t):
    k = t[0]
    if k in ("num", "ref", "time", "dt", "starttime", "stoptime", "pi", "agg"):
        return 0
    subs = children(t)
    return 1 + max(depth(s) for s in subs)


def children(t):
    k = t[0]
    if k == "bin" or k == "cmp":
        return [t[2], t[3]]
    if k in ("neg", "not"):
        return [t[1]]
    if k == "if":
        return [t[1], t[2], t[3]]
    if k in ("and", "or"):
        return [t[1], t[2]]
    if k == "call":
        return list(t[2])
    return []


def op_name(t):
    k = t[0]
    if k in ("bin", "cmp"):
        return t[1]
    if k == "call":
        return t[1]
    if k == "agg":
        return "arr_" + t[1]
    return k


def refs(t, acc=None):
    acc = set() if acc is None else acc
    if t[0] == "ref":
        acc.add(t[1])
    for c in children(t):
        refs(c, acc)
    return acc


# ---------------------------------------------------------------------------
# lowering into the SD DSL through its public surface (python operators)


def lower_dsl(t, elems, model=None):
    """elems: name -> DSL element.  Uses only python operators and
    BPTK_Py.sddsl.functions, exactly as a user would write the expression."""
    from BPTK_Py import sd_functions as sd

    k = t[0]
    if k == "num":
        return t[1]
    if k == "ref":
        return elems[t[1]]
    if k == "time":
        return sd.time()
    if k == "dt":
        return sd.dt(model)
    if k == "starttime":
        return sd.starttime(model)
    if k == "stoptime":
        return sd.stoptime(model)
    if k == "pi":
        return sd.pi()
    if k == "bin":
        l = lower_dsl(t[2], elems, model)
        r = lower_dsl(t[3], elems, model)
        op = t[1]
        if op == "+":
            return l + r
        if op == "-":
            return l - r
        if op == "*":
            return l * r
        if op == "/":
            return l / r
        if op == "**":
            return l ** r
        if op == "%":
            return l % r
    if k == "neg":
        return -lower_dsl(t[1], elems, model)
    if k == "cmp":
        l = lower_dsl(t[2], elems, model)
        r = lower_dsl(t[3], elems, model)
        op = t[1]
        if op == ">":
            return l > r
        if op == "<":
            return l < r
        if op == ">=":
            return l >= r
        if op == "<=":
            return l <= r
        if op == "==":
            return l == r
        if op == "!=":
            return l != r
    if k == "if":
        return sd.If(lower_dsl(t[1], elems, model), lower_dsl(t[2], elems, model), lower_dsl(t[3], elems, model))
    if k == "and":
        return sd.And(lower_dsl(t[1], elems, model), lower_dsl(t[2], elems, model))
    if k == "or":
        return sd.Or(lower_dsl(t[1], elems, model), lower_dsl(t[2], elems, model))
    if k == "not":
        return sd.Not(lower_dsl(t[1], elems, model))
    if k == "call":
        a = [lower_dsl(x, elems, model) for x in t[2]]
        return getattr(sd, t[1])(*a)
    if k == "agg":
        e = elems[t[2]]
        if t[1] == "rank":
            return e.arr_rank(t[3])
        return getattr(e, "arr_" + t[1])()
    raise ValueError("unknown node %r" % (t,))


def close(a, b, tol=1e-9):
    """numeric agreement (bool compares as 0/1)"""
    try:
        if isinstance(a, complex) or isinstance(b, complex):
            return False
        a = float(a)
        b = float(b)
    except (TypeError, ValueError):
        return False
    if a != a or b != b:
        return False
    return abs(a - b) <= tol * max(1.0, abs(a), abs(b))
