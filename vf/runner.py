"""Common runner: sharding, hypothesis driving, known findings, evidence, replay.

A property module (vf/props/cNN.py) exposes

    ID, LEVEL, RULE, ASSUMPTIONS, TECHNIQUE
    def plan(tier) -> list[dict]           shard specs (picklable, JSON-able)
    def run_shard(spec, ctx) -> None       explores; reports through ctx
    def check_case(case) -> (info, [Violation])   pure function of the case (replay)

Exit codes of main(): 0 held / 1 unlisted violation / 2 harness error.
"""
import hashlib
import importlib
import json
import os
import shutil
import sys
import tempfile
import time
import traceback
from collections import Counter

VERIF = os.path.dirname(os.path.dirname(os.path.abspath(__file__)))
REPO = os.environ.get("VERIF_REPO", "/repo")


def canon(obj):
    return json.dumps(obj, sort_keys=True, default=repr, separators=(",", ":"))


def sha(obj):
    return hashlib.sha1(canon(obj).encode()).hexdigest()


class Violation:
    """One oracle failure. signature = narrow root-cause key (string)."""

    def __init__(self, signature, detail, case=None):
        self.signature = signature
        self.detail = detail
        self.case = case

    def to_json(self):
        return {"signature": self.signature, "detail": self.detail, "case": self.case}


class Unlisted(Exception):
    """raised inside a hypothesis body for a violation not in known_findings"""

    def __init__(self, violations):
        super().__init__("; ".join(v.signature + ": " + str(v.detail)[:300] for v in violations[:3]))
        self.violations = violations


class HarnessError(Exception):
    pass


class CaseTimeout(BaseException):
    """a single case did not finish: reported as a harness problem (exit 2), never as a violation"""


CASE_TIMEOUT_S = int(os.environ.get("VERIF_CASE_TIMEOUT", "300"))


class _Watchdog:
    """SIGALRM based per-case watchdog (main thread of the shard process only)"""

    def __enter__(self):
        import signal
        self.ok = hasattr(signal, "SIGALRM")
        if self.ok:
            def handler(signum, frame):
                raise CaseTimeout("case did not finish within %d s (possible non-termination)" % CASE_TIMEOUT_S)
            try:
                self.old = signal.signal(signal.SIGALRM, handler)
                signal.alarm(CASE_TIMEOUT_S)
            except ValueError:
                self.ok = False
        return self

    def __exit__(self, *a):
        import signal
        if self.ok:
            signal.alarm(0)
            signal.signal(signal.SIGALRM, self.old)
        return False


def load_known(prop_id):
    known, fixed = [], []
    path = os.path.join(VERIF, "known_findings.jsonl")
    if os.path.exists(path):
        for line in open(path):
            line = line.strip()
            if not line or line.startswith("#"):
                continue
            rec = json.loads(line)
            if rec.get("property") != prop_id:
                continue
            (known if rec.get("status") == "known" else fixed).append(rec)
    return known, fixed


class Ctx:
    """per-shard collector"""

    MAX_SAMPLES = 6

    def __init__(self, prop_id, tier, seed, shard_index, spec):
        self.prop_id = prop_id
        self.tier = tier
        self.seed = seed
        self.shard_index = shard_index
        self.spec = spec
        self.evaluations = 0
        self.nontrivial = set()
        self.labels = Counter()
        self.samples = []  # (hash, sample)
        self.first_samples = []
        self.violations = []  # unlisted, shrunk
        self.known_hits = Counter()
        self.known_examples = {}
        self.discarded = 0
        self.extra = Counter()
        self.exhaustive = None
        self.harness_error = None
        self._known = {k["signature"]: k for k in load_known(prop_id)[0]}

    # ---- bookkeeping -------------------------------------------------
    def derived_seed(self, salt=""):
        h = hashlib.sha1(("%s|%s|%s|%s" % (self.seed, self.prop_id, self.shard_index, salt)).encode()).hexdigest()
        return int(h[:12], 16)

    def case(self, sample, nontrivial=False, labels=(), key=None):
        """record one executed case"""
        self.evaluations += 1
        h = sha(key if key is not None else sample)
        if nontrivial:
            self.nontrivial.add(h[:16])
        for lab in labels:
            self.labels[lab] += 1
        if len(self.first_samples) < 2:
            self.first_samples.append(sample)
        else:
            self.samples.append((h, sample))
            if len(self.samples) > 4 * self.MAX_SAMPLES:
                self.samples.sort(key=lambda x: x[0])
                del self.samples[self.MAX_SAMPLES:]

    def discard(self, why="discarded"):
        self.discarded += 1
        self.labels["discard:" + why] += 1

    def judge(self, violations):
        """split into known (counted) and unlisted (returned)"""
        unl = []
        for v in violations:
            if v.signature in self._known:
                self.known_hits[v.signature] += 1
                self.known_examples.setdefault(v.signature, v.detail)
            else:
                unl.append(v)
        return unl

    def report(self, violations):
        """inside a hypothesis body: raise for unlisted"""
        unl = self.judge(violations)
        if unl:
            raise Unlisted(unl)

    def add_violation(self, v):
        self.violations.append(v)

    # ---- drivers -----------------------------------------------------
    def hyp(self, strategy, body, max_examples, salt="", shrink=True, stateful_steps=None):
        """Run body(case) over strategy under hypothesis.  body must call
        ctx.case(...) and ctx.report(violations).  A failure is shrunk and stored."""
        import hypothesis
        from hypothesis import HealthCheck, Phase, given, settings

        holder = {}

        def wrapped(case):
            if holder.get("timeout"):
                return  # a case hung: do not try to shrink it
            try:
                with _Watchdog():
                    body(case)
            except CaseTimeout as e:
                holder["harness"] = (case, "CaseTimeout: %s" % e)
                holder["timeout"] = True
                raise HarnessError(str(e))
            except Unlisted as e:
                holder["last"] = (case, e.violations)
                raise
            except hypothesis.errors.HypothesisException:
                raise
            except BaseException as e:  # harness bug or unexpected crash: not a violation
                if isinstance(e, (KeyboardInterrupt, SystemExit)):
                    raise
                holder["harness"] = (case, traceback.format_exc())
                raise

        phases = [Phase.generate, Phase.target] + ([Phase.shrink] if shrink else [])
        st = settings(max_examples=max_examples, database=None, deadline=None, derandomize=False,
                      report_multiple_bugs=False, suppress_health_check=list(HealthCheck),
                      phases=phases, print_blob=False)
        test = hypothesis.seed(self.derived_seed(salt))(st(given(strategy)(wrapped)))
        try:
            test()
            if holder.get("timeout"):
                self.harness_error = "case=%s\n%s" % (canon(holder["harness"][0])[:2000], holder["harness"][1])
        except Unlisted:
            case, vs = holder["last"]
            for v in vs:
                v.case = case if v.case is None else v.case
                self.violations.append(v)
        except BaseException as e:
            if isinstance(e, (KeyboardInterrupt, SystemExit)):
                raise
            if holder.get("timeout"):
                self.harness_error = "case=%s\n%s" % (canon(holder["harness"][0])[:2000], holder["harness"][1])
            elif "last" in holder and "harness" not in holder:
                case, vs = holder["last"]
                for v in vs:
                    v.case = case if v.case is None else v.case
                    self.violations.append(v)
            else:
                tb = holder.get("harness", (None, traceback.format_exc()))
                self.harness_error = "case=%s\n%s" % (canon(tb[0])[:2000], tb[1])

    def enum(self, cases, body):
        """Run body over an explicit iterable of cases; every unlisted violation class
        (by signature) is kept once (smallest case by JSON length)."""
        best = {}
        for case in cases:
            try:
                with _Watchdog():
                    body(case)
            except CaseTimeout as e:
                self.harness_error = "case=%s\nCaseTimeout: %s" % (canon(case)[:2000], e)
                break
            except Unlisted as e:
                for v in e.violations:
                    v.case = case if v.case is None else v.case
                    cur = best.get(v.signature)
                    if cur is None or len(canon(v.case)) < len(canon(cur.case)):
                        best[v.signature] = v
            except BaseException as e:
                if isinstance(e, (KeyboardInterrupt, SystemExit)):
                    raise
                self.harness_error = "case=%s\n%s" % (canon(case)[:2000], traceback.format_exc())
                break
        self.violations.extend(best.values())

    def result(self):
        self.samples.sort(key=lambda x: x[0])
        return {
            "shard": self.shard_index,
            "evaluations": self.evaluations,
            "nontrivial": sorted(self.nontrivial),
            "labels": dict(self.labels),
            "samples": self.first_samples + [s for _, s in self.samples[: self.MAX_SAMPLES]],
            "violations": [v.to_json() for v in self.violations],
            "known_hits": dict(self.known_hits),
            "known_examples": {k: str(v)[:500] for k, v in self.known_examples.items()},
            "discarded": self.discarded,
            "extra": dict(self.extra),
            "exhaustive": self.exhaustive,
            "harness_error": self.harness_error,
        }


def _assert_repo():
    import BPTK_Py

    f = os.path.realpath(BPTK_Py.__file__)
    if not f.startswith(os.path.realpath(REPO) + os.sep):
        raise HarnessError("BPTK_Py imported from %s, expected under %s" % (f, REPO))


def _worker(args):
    prop_id, tier, seed, idx, spec = args
    os.environ.setdefault("MPLBACKEND", "Agg")
    scratch = tempfile.mkdtemp(prefix="vf_%s_%d_" % (prop_id, idx))
    old = os.getcwd()
    os.chdir(scratch)
    ctx = Ctx(prop_id, tier, seed, idx, spec)
    try:
        _assert_repo()
        mod = importlib.import_module("vf.props." + prop_id.lower())
        mod.run_shard(spec, ctx)
    except BaseException:
        ctx.harness_error = traceback.format_exc()
    finally:
        os.chdir(old)
        shutil.rmtree(scratch, ignore_errors=True)
    return ctx.result()


def run_check(prop_id, tier, seed, jobs=None):
    t0 = time.time()
    mod = importlib.import_module("vf.props." + prop_id.lower())
    specs = mod.plan(tier)
    jobs = jobs or int(os.environ.get("VERIF_JOBS", "16"))
    tasks = [(prop_id, tier, seed, i, s) for i, s in enumerate(specs)]
    if jobs == 1 or len(tasks) == 1:
        results = [_worker(t) for t in tasks]
    else:
        import multiprocessing as mp

        with mp.get_context("spawn").Pool(min(jobs, len(tasks)), maxtasksperchild=1) as pool:
            results = pool.map(_worker, tasks, chunksize=1)
    return finish(mod, prop_id, tier, seed, results, time.time() - t0, specs)


def finish(mod, prop_id, tier, seed, results, wall, specs):
    known, fixed = load_known(prop_id)
    evaluations = sum(r["evaluations"] for r in results)
    nontrivial = set()
    labels = Counter()
    known_hits = Counter()
    known_examples = {}
    extra = Counter()
    samples = []
    violations = []
    harness = []
    discarded = 0
    for r in results:
        nontrivial.update(r["nontrivial"])
        labels.update(r["labels"])
        known_hits.update(r["known_hits"])
        for ek, ev_ in r["extra"].items():
            if ek.endswith("_max"):
                extra[ek] = max(extra.get(ek, 0), ev_)
            else:
                extra[ek] += ev_
        for k, v in r["known_examples"].items():
            known_examples.setdefault(k, v)
        discarded += r["discarded"]
        violations.extend(r["violations"])
        if r["harness_error"]:
            harness.append("shard %d: %s" % (r["shard"], r["harness_error"]))
    # samples: round-robin over shards, at most 12
    k = 0
    while len(samples) < 12 and any(len(r["samples"]) > k for r in results):
        for r in results:
            if len(r["samples"]) > k and len(samples) < 12:
                samples.append(r["samples"][k])
        k += 1
    exhaustive_flags = [r["exhaustive"] for r in results if r["exhaustive"] is not None]

    # replay files for unlisted violations (dedupe by signature, keep smallest)
    best = {}
    for v in violations:
        cur = best.get(v["signature"])
        if cur is None or len(canon(v["case"])) < len(canon(cur["case"])):
            best[v["signature"]] = v
    lines = []
    for sig, v in sorted(best.items()):
        d = os.path.join(VERIF, "replays", prop_id)
        os.makedirs(d, exist_ok=True)
        body = {"property": prop_id, "signature": sig, "detail": v["detail"], "case": v["case"],
                "seed": seed, "tier": tier}
        path = os.path.join(d, sha(body["case"])[:12] + ".json")
        with open(path, "w") as f:
            json.dump(body, f, indent=1, sort_keys=True, default=repr)
        lines.append("VIOLATION property=%s replay=%s" % (prop_id, path))
        print("  signature: %s\n  detail: %s" % (sig, str(v["detail"])[:1500]))

    cov = {
        "evaluations": evaluations,
        "distinct_nontrivial": len(nontrivial),
        "rule": mod.RULE,
        "samples": samples,
        "labels": dict(sorted(labels.items())),
        "discarded": discarded,
        "shards": len(specs),
        "known_finding_hits": dict(known_hits),
    }
    if extra:
        cov.update({k: v for k, v in extra.items()})
    if exhaustive_flags:
        cov["exhaustive"] = all(exhaustive_flags)
        cov["exhaustive_scope"] = getattr(mod, "EXHAUSTIVE_SCOPE", "")
    if mod.LEVEL == "translation_validation":
        cov.setdefault("programs", extra.get("programs", evaluations))
        cov.setdefault("disagreements_checked", extra.get("disagreements_checked", 0))
    ev = {
        "property_id": prop_id,
        "tier": tier,
        "seed": seed,
        "level": mod.LEVEL,
        "coverage": cov,
        "assumptions": list(mod.ASSUMPTIONS),
        "wall_s": round(wall, 2),
        "violations": len(best),
    }
    os.makedirs(os.path.join(VERIF, "evidence"), exist_ok=True)
    with open(os.path.join(VERIF, "evidence", prop_id + ".json"), "w") as f:
        json.dump(ev, f, indent=1, sort_keys=True, default=repr)

    print("%s tier=%s seed=%d evaluations=%d distinct_nontrivial=%d discarded=%d wall=%.1fs" % (
        prop_id, tier, seed, evaluations, len(nontrivial), discarded, wall))
    for lab, n in sorted(labels.items()):
        print("  label %-45s %d" % (lab, n))
    for kf in known:
        n = known_hits.get(kf["signature"], 0)
        if n:
            print("KNOWN-FINDING: property=%s %s [signature=%s hits=%d]" % (prop_id, kf["what"], kf["signature"], n))
    if harness:
        print("HARNESS ERROR (not a violation):")
        for h in harness[:3]:
            print(h)
        for l in lines:
            print(l)
        return 1 if lines else 2
    for l in lines:
        print(l)
    if lines:
        return 1
    if evaluations == 0:
        print("HARNESS ERROR: nothing explored")
        return 2
    return 0


def replay(prop_id, path):
    mod = importlib.import_module("vf.props." + prop_id.lower())
    _assert_repo()
    body = json.load(open(path))
    case = body["case"] if isinstance(body, dict) and "case" in body else body
    scratch = tempfile.mkdtemp(prefix="vf_replay_")
    old = os.getcwd()
    os.chdir(scratch)
    try:
        ctx = Ctx(prop_id, "quick", 0, 0, {})
        info, vs = mod.check_case(case)
    finally:
        os.chdir(old)
        shutil.rmtree(scratch, ignore_errors=True)
    unl = ctx.judge(vs)
    print("replay %s: %d violation(s), %d unlisted" % (path, len(vs), len(unl)))
    for v in vs:
        print("  %s %s: %s" % ("UNLISTED" if v in unl else "known", v.signature, str(v.detail)[:1500]))
    if unl:
        print("VIOLATION property=%s replay=%s" % (prop_id, path))
        return 1
    for sig in ctx.known_hits:
        print("KNOWN-FINDING: property=%s %s" % (prop_id, ctx._known[sig]["what"]))
    return 0
