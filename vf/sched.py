"""Deterministic line-level thread scheduler (harness side, sys.settrace based).

Controlled threads call begin()/end() around their body (the harness wraps the thread
target).  Inside, every 'line' event in one of the traced source files is a scheduling
point: exactly one controlled thread runs at a time and which one continues is a pure
function of the *choice function* given to the scheduler, so an interleaving is
reproducible from its choice list.

choice semantics at a point with k runnable threads (ordered by registration index):
    c = choose(point_index, k);  c == 0 -> the current thread continues,
    c  > 0 -> switch to the (c-1)-th *other* runnable thread (a preemption).
When a thread ends the lowest-index runnable thread continues (no choice consumed).
"""
import sys
import threading


class SchedTimeout(Exception):
    pass


class Scheduler:
    def __init__(self, files, choose, expected, timeout=20.0, funcs=None, first_only=None):
        self.funcs = set(funcs) if funcs else None  # optional: only lines of these functions are scheduling points
        self.first_only = set(first_only) if first_only else set()  # of these functions only the first line of each call
        self.files = tuple(files)
        self.choose = choose
        self.expected = expected  # number of controlled threads to wait for before starting
        self.timeout = timeout
        self.cv = threading.Condition()
        self.order = []  # registration order: idents
        self.alive = set()
        self.turn = None
        self.started = False
        self.points = 0
        self.preemptions = 0
        self.trace = []  # (point index, thread index chosen) for switches only
        self.failed = None
        self._match_cache = {}

    # -- thread lifecycle ----------------------------------------------------
    def begin(self):
        me = threading.get_ident()
        with self.cv:
            self.order.append(me)
            self.alive.add(me)
            if len(self.order) >= self.expected and not self.started:
                self.started = True
                self.turn = self.order[0]
                self.cv.notify_all()
            self._wait_turn(me)
        sys.settrace(self._global)

    def end(self):
        sys.settrace(None)
        me = threading.get_ident()
        with self.cv:
            self.alive.discard(me)
            if self.turn == me:
                rest = [t for t in self.order if t in self.alive]
                self.turn = rest[0] if rest else None
            self.cv.notify_all()

    def _wait_turn(self, me):
        while not (self.started and self.turn == me):
            if not self.cv.wait(self.timeout):
                self.failed = "scheduler timeout (thread %d waiting)" % self.order.index(me)
                raise SchedTimeout(self.failed)

    # -- tracing -------------------------------------------------------------
    def _match(self, filename):
        r = self._match_cache.get(filename)
        if r is None:
            r = filename.endswith(self.files)
            self._match_cache[filename] = r
        return r

    def _global(self, frame, event, arg):
        if event == "call" and self._match(frame.f_code.co_filename):
            name = frame.f_code.co_name
            if name in self.first_only:
                return self._first_line
            if self.funcs is not None and name not in self.funcs:
                return None
            return self._local
        return None

    def _first_line(self, frame, event, arg):
        if event == "line":
            frame.f_trace_lines = False  # no further line events for this call
            self.point()
        return self._first_line

    def _local(self, frame, event, arg):
        if event == "line":
            self.point()
        return self._local

    def point(self):
        me = threading.get_ident()
        with self.cv:
            idx = self.points
            self.points += 1
            runnable = [t for t in self.order if t in self.alive]
            if len(runnable) > 1:
                c = self.choose(idx, len(runnable))
                if c:
                    others = [t for t in runnable if t != me]
                    nxt = others[(c - 1) % len(others)]
                    self.preemptions += 1
                    self.trace.append((idx, self.order.index(nxt)))
                    self.turn = nxt
                    self.cv.notify_all()
                    self._wait_turn(me)


def list_chooser(choices):
    """choice function from a list (exhausted -> 0)"""
    def choose(idx, k):
        if idx < len(choices):
            return choices[idx]
        return 0
    return choose


def preempt_chooser(plan):
    """plan: dict point index -> choice (>0)"""
    def choose(idx, k):
        return plan.get(idx, 0)
    return choose


class CoopLock:
    """Scheduler-aware stand-in for a threading.Lock used by the code under test.

    A controlled thread that finds the lock taken (by a thread the scheduler has parked) hands the
    turn to another runnable thread instead of blocking inside the OS lock while holding the turn -
    which would deadlock the harness, not the program.  Semantics are those of a plain mutex."""

    def __init__(self, scheduler):
        self.s = scheduler
        self._lock = threading.Lock()

    def acquire(self, blocking=True, timeout=-1):
        while not self._lock.acquire(False):
            if not blocking:
                return False
            self.s.yield_to_other()
        return True

    def release(self):
        self._lock.release()

    def __enter__(self):
        self.acquire()
        return self

    def __exit__(self, *a):
        self.release()


def _yield_to_other(self):
    me = threading.get_ident()
    with self.cv:
        if me not in self.alive:
            return  # not a controlled thread
        others = [t for t in self.order if t in self.alive and t != me]
        if not others:
            raise SchedTimeout("deadlock: lock held and no other runnable thread")
        # round robin: the next thread after me in registration order
        idx = self.order.index(me)
        nxt = next((t for t in self.order[idx + 1:] + self.order[:idx] if t in self.alive and t != me))
        self.trace.append((self.points, self.order.index(nxt)))
        self.turn = nxt
        self.cv.notify_all()
        self._wait_turn(me)


Scheduler.yield_to_other = _yield_to_other
