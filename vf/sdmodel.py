"""Abstract stock-and-flow models: Hypothesis generator, DSL builder, independent Euler reference.

Abstract model (JSON):
  {"start": "0", "dt": "0.5", "n": 8,
   "constants": [{"name": "k0", "value": 2.0}, ...],
   "points": {"p0": [[x, y], ...]},
   "stocks": [{"name": "s0", "init": 5.0 | ["ref", "k0"], "eq": tree-over-flows}],
   "aux": [{"kind": "converter"|"flow"|"biflow", "name": "c0", "eq": tree}, ...]}   (declaration order)
Trees: vf.expr nodes plus
  ["lookup", tree, "pname" | [[x,y],...]]     ["delay", name, k, init|None]  (k = delay in units of dt; ["ref", const] allowed: value/dt)
  ["smooth", id, tree, T, init]  ["trend", id, tree, T, init]   (T, init: number or ["ref", const])
  ["step", h, t0]  ["pulse", vol, first, interval]  ["sinwave", amp, period]  ["coswave", amp, period]
aux elements may reference earlier aux elements and any stock; stocks reference flows/biflows (and
optionally time built-ins) -> no algebraic loops by construction, feedback through stocks.

The reference (RefModel) shares no code with BPTK_Py: forward sweep over the decimal grid.
"""
import math
from decimal import Decimal

from hypothesis import strategies as st

from vf import expr as E

MODEL_NODES = ("lookup", "delay", "smooth", "trend", "step", "pulse", "sinwave", "coswave")


def grid(case):
    s, d = Decimal(case["start"]), Decimal(case["dt"])
    return [float(str(s + i * d)) for i in range(case["n"] + 1)]


# ---------------------------------------------------------------------------
# reference


def ref_lookup(points, x):
    xs = [p[0] for p in points]
    ys = [p[1] for p in points]
    if x <= xs[0]:
        return float(ys[0])
    if x >= xs[-1]:
        return float(ys[-1])
    for i in range(len(xs) - 1):
        if xs[i] <= x <= xs[i + 1]:
            if xs[i + 1] == xs[i]:
                return float(ys[i])
            w = (x - xs[i]) / (xs[i + 1] - xs[i])
            return ys[i] + w * (ys[i + 1] - ys[i])
    raise E.Fragile("lookup")


class RefModel:
    """explicit Euler on the decimal grid.  overrides: constants {name: value}, points {name: pts};
    schedule: list of (grid index k, {"constants": {...}, "points": {...}}) in force for indices >= k."""

    def __init__(self, case, constants=None, points=None, schedule=None, limit=1e12):
        self.case = case
        self.grid = grid(case)
        self.dt = float(case["dt"])
        self.start = self.grid[0]
        self.stop = self.grid[-1]
        self.n = case["n"]
        self.limit = limit
        self.const0 = {c["name"]: c["value"] for c in case["constants"]}
        self.const0.update(constants or {})
        self.points0 = {k: v for k, v in case.get("points", {}).items()}
        self.points0.update(points or {})
        self.schedule = sorted(schedule or [], key=lambda x: x[0])
        self._args = (constants, points, schedule, limit)
        self._noise = 0.0
        self.val = {}  # name -> list of values by index
        self.sm = {}  # smooth/trend id -> list of averages by index

    # settings in force at index i
    def _const(self, name, i):
        v = self.const0[name]
        for k, s in self.schedule:
            if k <= i and name in s.get("constants", {}):
                v = s["constants"][name]
        return v

    def _points(self, name, i):
        v = self.points0[name]
        for k, s in self.schedule:
            if k <= i and name in s.get("points", {}):
                v = s["points"][name]
        return v

    def _num(self, x, i):
        """number or ["ref", const]"""
        if isinstance(x, list):
            return self._const(x[1], i)
        return x

    def ev(self, t, i):
        k = t[0]
        if k in MODEL_NODES:
            if k == "lookup":
                x = self.ev(t[1], i)
                pts = self._points(t[2], i) if isinstance(t[2], str) else t[2]
                return ref_lookup(pts, x)
            if k == "delay":
                kk = t[2]
                if isinstance(kk, list):  # constant holding the duration (time units)
                    dur = self._const(kk[1], 0)
                    q = dur / self.dt
                    if abs(q - round(q)) > 1e-9:
                        raise E.Fragile("delay-off-grid")
                    kk = int(round(q))
                if i - kk >= 0:
                    return self.val[t[1]][i - kk]
                if t[3] is None:
                    return self.val[t[1]][0]
                return self._num(t[3], 0)
            if k == "smooth":
                return self.sm[t[1]][i]
            if k == "trend":
                avg = self.sm[t[1]][i]
                T = self._num(t[3], i)
                x = self.ev(t[2], i)
                den = avg * T
                if abs(den) < E.MARGIN:
                    raise E.Fragile("trend-den")
                return (x - avg) / den
            if k == "step":
                return self._num(t[1], i) if self.grid[i] > self._num(t[2], i) else 0.0
            if k == "pulse":
                vol, first, interval = self._num(t[1], i), t[2], t[3]
                tt = Decimal(str(self.grid[i])) - Decimal(str(first))
                if interval == 0:
                    hit = tt == 0
                else:
                    hit = tt >= 0 and (tt % Decimal(str(interval))) == 0
                return vol / self.dt if hit else 0.0
            if k == "sinwave":
                return math.sin(2 * math.pi / self._num(t[2], i) * (self.grid[i] - self.start)) * self._num(t[1], i)
            if k == "coswave":
                return math.cos(2 * math.pi / self._num(t[2], i) * (self.grid[i] - self.start)) * self._num(t[1], i)
        ev = E.RefEval(lambda name: self._ref(name, i), time=self.grid[i], dt=self.dt, start=self.start, stop=self.stop,
                       limit=self.limit)
        # delegate plain nodes, recursing back into self.ev for children that are model nodes
        return self._plain(ev, t, i)

    def _plain(self, ev, t, i):
        # evaluate children first with self.ev, then let RefEval combine numbers
        k = t[0]
        if k in ("num", "ref", "time", "dt", "starttime", "stoptime", "pi"):
            return ev.ev(t)
        kids = E.children(t)
        if k == "if":
            c = self.ev(t[1], i)
            return self.ev(t[2], i) if c else self.ev(t[3], i)
        if k in ("and", "or"):
            l = self.ev(t[1], i)
            if k == "and":
                return self.ev(t[2], i) if l else l
            return l if l else self.ev(t[2], i)
        vals = [self.ev(c, i) for c in kids]
        lit = [["num", v] for v in vals]
        if k in ("bin", "cmp"):
            return ev.ev([k, t[1], lit[0], lit[1]])
        if k in ("neg", "not"):
            return ev.ev([k, lit[0]])
        if k == "call":
            return ev.ev(["call", t[1], lit])
        raise ValueError("unknown node %r" % (t,))

    def _ref(self, name, i):
        if name in self.const0:
            return self._const(name, i)
        return self.val[name][i]

    def _smooth_nodes(self, t, acc):
        if not isinstance(t, list) or not t:
            return
        if t[0] in ("smooth", "trend"):
            acc.append(t)
            self._smooth_nodes(t[2], acc)
            return
        if t[0] == "lookup":
            self._smooth_nodes(t[1], acc)
            return
        for c in E.children(t):
            self._smooth_nodes(c, acc)

    def run(self, probe=True):
        """the trajectory; with probe, a second run with rounding-sized noise injected into every stock update decides
        whether the trajectory is well-conditioned (chaotic or unstable difference equations amplify the last digits of
        any float implementation beyond the comparison tolerance): such cases are Fragile"""
        val = self._run()
        if probe:
            other = RefModel(self.case, *self._args)
            other.grid = list(self.grid)
            other._noise = 1e-14
            try:
                val2 = other._run()
            except E.Fragile:
                raise E.Fragile("sensitive")
            for nm, xs in val.items():
                for a, b in zip(xs, val2[nm]):
                    if isinstance(a, (int, float)) and isinstance(b, (int, float)) and abs(a - b) > 1e-10 * max(1.0, abs(a)):
                        raise E.Fragile("sensitive")
        return val

    def _run(self):
        case = self.case
        aux = case["aux"]
        stocks = case["stocks"]
        for c in case["constants"]:
            self.val[c["name"]] = []
        for el in aux + stocks:
            self.val[el["name"]] = []
        smooths = []
        for el in aux + stocks:
            self._smooth_nodes(el["eq"], smooths)
        for s in smooths:
            self.sm[s[1]] = []
        for i in range(self.n + 1):
            for c in case["constants"]:
                self.val[c["name"]].append(self._const(c["name"], i))
            # stocks at i
            for s in stocks:
                if i == 0:
                    init = s["init"]
                    if isinstance(init, list):
                        nm = init[1]
                        v = self._const(nm, 0) if nm in self.const0 else None
                        if v is None:
                            raise E.Fragile("init-ref")
                    else:
                        v = init
                else:
                    v = self.val[s["name"]][i - 1] + self.dt * self._stock_rate[s["name"]]
                    if self._noise:
                        v = v * (1.0 + (self._noise if i % 2 else -self._noise))
                self._check(v)
                self.val[s["name"]].append(v)
            # smooth states at i
            for sn in smooths:
                if i == 0:
                    self.sm[sn[1]].append(self._num(sn[4], 0))
                else:
                    self.sm[sn[1]].append(self._sm_next[sn[1]])
            # aux at i in declaration order
            for el in aux:
                v = self.ev(el["eq"], i)
                if isinstance(v, bool):
                    v = float(v)
                if el["kind"] == "flow":
                    v = max(0, v)
                self._check(v)
                self.val[el["name"]].append(v)
            # rates for the next index
            self._stock_rate = {}
            for s in stocks:
                r = self.ev(s["eq"], i)
                self._check(r)
                self._stock_rate[s["name"]] = r
            self._sm_next = {}
            for sn in smooths:
                x = self.ev(sn[2], i)
                T = self._num(sn[3], i)
                if abs(T) < E.MARGIN:
                    raise E.Fragile("T0")
                cur = self.sm[sn[1]][i]
                nxt = cur + self.dt * ((x - cur) / T)
                if self._noise:
                    nxt = nxt * (1.0 + (self._noise if i % 2 else -self._noise))
                self._check(nxt)
                self._sm_next[sn[1]] = nxt
        return self.val

    def _check(self, v):
        if isinstance(v, complex) or v != v or abs(v) > self.limit:
            raise E.Fragile("non-finite")


# ---------------------------------------------------------------------------
# DSL builder (public surface only)


def lower_model_tree(t, elems, model, consts):
    """like expr.lower_dsl but knows the model nodes"""
    from BPTK_Py import sd_functions as sd

    def num(x):
        return elems[x[1]] if isinstance(x, list) else x

    k = t[0]
    if k == "lookup":
        return sd.lookup(lower_model_tree(t[1], elems, model, consts), t[2])
    if k == "delay":
        kk = t[2]
        dur = elems[kk[1]] if isinstance(kk, list) else float(Decimal(str(kk)) * Decimal(str(getattr(model, "_vf_dt", model.dt))))
        init = None if t[3] is None else num(t[3])
        return sd.delay(model, elems[t[1]], dur, init)
    if k == "smooth":
        return sd.smooth(model, lower_model_tree(t[2], elems, model, consts), num(t[3]), num(t[4]))
    if k == "trend":
        return sd.trend(model, lower_model_tree(t[2], elems, model, consts), num(t[3]), num(t[4]))
    if k == "step":
        return sd.step(num(t[1]), num(t[2]))
    if k == "pulse":
        return sd.pulse(model, num(t[1]), t[2], t[3])
    if k == "sinwave":
        return sd.sinwave(num(t[1]), num(t[2]))
    if k == "coswave":
        return sd.coswave(num(t[1]), num(t[2]))
    if k in ("num", "ref", "time", "dt", "starttime", "stoptime", "pi", "agg"):
        return E.lower_dsl(t, elems, model)
    # compound plain node: lower children with this function
    kids = E.children(t)
    low = [lower_model_tree(c, elems, model, consts) for c in kids]
    fake = {}
    lits = []
    for j, l in enumerate(low):
        nm = "__%d" % j
        fake[nm] = l
        lits.append(["ref", nm])
    if k in ("bin", "cmp"):
        return E.lower_dsl([k, t[1], lits[0], lits[1]], fake, model)
    if k in ("neg", "not"):
        return E.lower_dsl([k, lits[0]], fake, model)
    if k == "if":
        return E.lower_dsl(["if", lits[0], lits[1], lits[2]], fake, model)
    if k in ("and", "or"):
        return E.lower_dsl([k, lits[0], lits[1]], fake, model)
    if k == "call":
        return E.lower_dsl(["call", t[1], lits], fake, model)
    raise ValueError("unknown node %r" % (t,))


def build_dsl(case, name="m"):
    """returns (model, elems)"""
    from BPTK_Py import Model

    g = grid(case)
    late = case.get("late_runspecs")
    if late:
        # built under other run specs; the generated ones are set with Model.run_specs once the model is complete
        model = Model(starttime=float(late[0]), stoptime=float(late[0]) + 10.0, dt=float(late[1]), name=name)
    else:
        model = Model(starttime=g[0], stoptime=g[-1], dt=float(case["dt"]), name=name)
    model._vf_dt = float(case["dt"])  # durations given as multiples of dt refer to the dt the model is run with
    elems = {}
    for c in case["constants"]:
        e = model.constant(c["name"])
        if c["value"] is not None:  # None: created, value assigned later (evaluates to 0.0 until then)
            e.equation = c["value"]
        elems[c["name"]] = e
    for pn, pts in case.get("points", {}).items():
        model.points[pn] = [list(p) for p in pts]
    for s in case["stocks"]:
        elems[s["name"]] = model.stock(s["name"])
    consts = set(elems)
    for el in case["aux"]:
        e = getattr(model, el["kind"])(el["name"])
        elems[el["name"]] = e
        eq = lower_model_tree(el["eq"], elems, model, consts)
        e.equation = eq
    for s in case["stocks"]:
        st_ = elems[s["name"]]
        init = s["init"]
        st_.initial_value = elems[init[1]] if isinstance(init, list) else float(init)
        st_.equation = lower_model_tree(s["eq"], elems, model, consts)
    if late:
        model.run_specs(g[0], g[-1], float(case["dt"]))
    return model, elems


def model_scale(ref):
    """largest magnitude anywhere in the reference trajectory (bounds cancellation noise)"""
    m = 1.0
    for vals in ref.values():
        for v in vals:
            if isinstance(v, (int, float)) and abs(v) > m:
                m = abs(v)
    return m


def values_agree(got, want, scale, n):
    """relative 1e-9, or absolute noise bound 1e-13 * scale * (n+1) for sums that cancel"""
    if E.close(got, want, 1e-9):
        return True
    try:
        return abs(float(got) - float(want)) <= 1e-13 * scale * (n + 1)
    except (TypeError, ValueError):
        return False


def element_names(case):
    return [c["name"] for c in case["constants"]] + [s["name"] for s in case["stocks"]] + [a["name"] for a in case["aux"]]


# ---------------------------------------------------------------------------
# generator

NICE = [0.25, 0.5, 1.0, 1.5, 2.0, 3.0, 4.0, 0.1, 0.3, 5.0, 8.0, -1.0, -2.0, -0.5, 0.75, 10.0]
# literals with more significant digits than any short formatting keeps
LONG = [0.0312345678, 3.14159265, 1.23456789, 12345.6789, 0.693147181, -2.718281828, 1234567.25, 0.08333333]
RUNSPECS = [("0", "1"), ("0", "0.5"), ("1", "0.25"), ("0", "0.125"), ("0", "0.1"), ("1", "0.2"), ("0", "0.05"),
            ("2.5", "0.5"), ("0.5", "0.1"), ("10", "1"), ("0", "0.25"), ("1", "1"), ("100.1", "0.1"), ("-1", "0.5"),
            # start times with more decimals than dt
            ("0.5", "1"), ("0.25", "0.5"), ("2.5", "1"), ("0.125", "0.25"), ("1.75", "0.5"), ("0.05", "0.1")]
BINARY_DT = ("1", "0.5", "0.25", "0.125")


def sym_show(case):
    """compact printable form of a model"""
    out = {"run": "start=%s dt=%s n=%d" % (case["start"], case["dt"], case["n"]),
           "constants": {c["name"]: c["value"] for c in case["constants"]},
           "stocks": {s["name"]: "init=%s d/dt=%s" % (show(s["init"]) if isinstance(s["init"], list) else s["init"], show(s["eq"])) for s in case["stocks"]},
           "aux": {a["name"]: "%s: %s" % (a["kind"], show(a["eq"])) for a in case["aux"]}}
    if case.get("points"):
        out["points"] = case["points"]
    return out


def show(t):
    if not isinstance(t, list):
        return repr(t)
    k = t[0]
    if k == "lookup":
        return "lookup(%s, %s)" % (show(t[1]), t[2] if isinstance(t[2], str) else "pts%d" % len(t[2]))
    if k == "delay":
        return "delay(%s, %s*dt, %s)" % (t[1], show(t[2]), show(t[3]))
    if k in ("smooth", "trend"):
        return "%s(%s, %s, %s)" % (k, show(t[2]), show(t[3]), show(t[4]))
    if k in ("step", "pulse", "sinwave", "coswave"):
        return "%s(%s)" % (k, ", ".join(show(x) for x in t[1:]))
    if k in ("bin", "cmp"):
        return "(%s %s %s)" % (show(t[2]), t[1], show(t[3]))
    if k == "neg":
        return "(-%s)" % show(t[1])
    if k == "if":
        return "If(%s, %s, %s)" % (show(t[1]), show(t[2]), show(t[3]))
    if k in ("and", "or"):
        return "%s(%s, %s)" % (k.capitalize(), show(t[1]), show(t[2]))
    if k == "not":
        return "Not(%s)" % show(t[1])
    if k == "call":
        return "%s(%s)" % (t[1], ", ".join(show(x) for x in t[2]))
    return E.show(t)


def features(case):
    f = set()

    def walk(t, where):
        if not isinstance(t, list) or not t or not isinstance(t[0], str):
            return
        if t[0] in MODEL_NODES or t[0] in ("time", "dt", "starttime", "stoptime"):
            f.add(t[0] + ("@stock" if where == "stock" else ""))
        if t[0] in ("smooth", "trend"):
            walk(t[2], where)
        elif t[0] == "lookup":
            walk(t[1], where)
        else:
            for c in E.children(t):
                walk(c, where)
    for a in case["aux"]:
        f.add(a["kind"])
        walk(a["eq"], "aux")
    for s in case["stocks"]:
        walk(s["eq"], "stock")
        if isinstance(s["init"], list):
            f.add("init-ref")
    return f


def model_strategy(max_n=30, builtins=True, runspecs=None, stock_builtins=True, allow=None):
    """allow: optional set of model-node kinds to use"""
    rs = runspecs or RUNSPECS

    @st.composite
    def build(draw):
        start, dt = draw(st.sampled_from(rs))
        n = draw(st.integers(3, max_n))
        nconst = draw(st.integers(1, 3))
        constants = [{"name": "k%d" % i, "value": draw(st.sampled_from([v for v in NICE if v > 0]))} for i in range(nconst)]
        nstock = draw(st.integers(1, 3))
        stock_names = ["s%d" % i for i in range(nstock)]
        points = {}
        npts = draw(st.integers(0, 2)) if builtins else 0
        for i in range(npts):
            k = draw(st.integers(2, 5))
            xs = sorted(draw(st.lists(st.sampled_from([-2.0, -1.0, 0.0, 0.5, 1.0, 2.0, 3.0, 5.0, 8.0, 10.0]), min_size=k, max_size=k, unique=True)))
            points["p%d" % i] = [[x, draw(st.sampled_from(NICE))] for x in xs]
        sm_id = [0]
        aux = []
        dtd = Decimal(dt)

        def leaf(avail):
            opts = [st.sampled_from(avail).map(lambda nm: ["ref", nm]) if avail else st.just(["num", 1.0]),
                    st.sampled_from(stock_names).map(lambda nm: ["ref", nm]),
                    st.sampled_from([c["name"] for c in constants]).map(lambda nm: ["ref", nm]),
                    st.sampled_from(NICE).map(lambda v: ["num", v]),
                    st.sampled_from(NICE + NICE + LONG).map(lambda v: ["num", v])]
            return st.one_of(*opts)

        def arith(avail, depth):
            if depth <= 0:
                return leaf(avail)
            sub = arith(avail, depth - 1)
            safe_div = st.tuples(sub, st.sampled_from([c["name"] for c in constants])).map(lambda x: ["bin", "/", x[0], ["ref", x[1]]])
            return st.one_of(
                leaf(avail),
                st.tuples(st.sampled_from(["+", "-", "*", "-", "+"]), sub, sub).map(lambda x: ["bin", x[0], x[1], x[2]]),
                safe_div,
                sub.map(lambda x: ["neg", x]),
                st.tuples(st.sampled_from(["min", "max"]), sub, sub).map(lambda x: ["call", x[0], [x[1], x[2]]]),
                st.tuples(st.sampled_from(E.CMPOPS[:4]), sub, st.sampled_from(NICE), sub, sub).map(
                    lambda x: ["if", ["cmp", x[0], x[1], ["num", x[2] + 0.125]], x[3], x[4]]),
                sub.filter(lambda x: bool(E.refs(x))).map(lambda x: ["call", "abs", [x]]),  # abs(<number>) is not DSL
            )

        def numref():
            return st.one_of(st.sampled_from([1.0, 2.0, 0.5, 4.0, 3.0]),
                             st.sampled_from([c["name"] for c in constants]).map(lambda nm: ["ref", nm]))

        def builtin(avail, where):
            opts = []
            ok = (lambda k: allow is None or k in allow)
            if points and ok("lookup"):
                opts.append(st.tuples(arith(avail, 1), st.sampled_from(sorted(points))).map(lambda x: ["lookup", x[0], x[1]]))
            if ok("lookup"):
                opts.append(arith(avail, 1).map(lambda x: ["lookup", x, [[0.0, 1.0], [2.0, 3.0], [4.0, 0.5], [6.0, 2.0]]]))
            refs_ok = [a["name"] for a in aux] + stock_names
            if ok("delay") and refs_ok:
                opts.append(st.tuples(st.sampled_from(refs_ok), st.integers(0, 4),
                                      st.one_of(st.none(), st.sampled_from([0.0, 1.0, 2.5]), st.sampled_from([c["name"] for c in constants]).map(lambda nm: ["ref", nm])))
                            .map(lambda x: ["delay", x[0], x[1], x[2]]))
            if ok("smooth") and where != "stock":
                opts.append(st.tuples(arith(avail, 1), numref(), st.sampled_from([0.0, 1.0, 5.0])).map(
                    lambda x: ["smooth", None, x[0], x[1], x[2]]))
            if ok("trend") and where != "stock":
                opts.append(st.tuples(arith(avail, 1), numref(), st.sampled_from([1.0, 5.0, 2.0])).map(
                    lambda x: ["trend", None, x[0], x[1], x[2]]))
            if ok("step"):
                g0 = Decimal(start)
                opts.append(st.tuples(numref(), st.integers(0, 6)).map(lambda x: ["step", x[0], float(str(g0 + x[1] * dtd))]))
                opts.append(st.tuples(numref(), st.sampled_from([0.3, 1.7, 2.05, 100.15])).map(lambda x: ["step", x[0], x[1]]))
            if ok("pulse") and dt in BINARY_DT:
                g0 = Decimal(start)
                opts.append(st.tuples(st.sampled_from([1.0, 2.0, 0.5]), st.integers(0, 4), st.integers(0, 3)).map(
                    lambda x: ["pulse", x[0], float(str(g0 + x[1] * dtd)), float(str(x[2] * dtd))]))
            if ok("time"):
                opts.append(st.sampled_from([["time"], ["dt"], ["starttime"], ["stoptime"]]))
            if ok("sinwave"):
                opts.append(st.tuples(st.sampled_from(["sinwave", "coswave"]), numref(), st.sampled_from([4.0, 2.0, 8.0, 3.0])).map(
                    lambda x: [x[0], x[1], x[2]]))
            return st.one_of(*opts)

        def eq_tree(avail, where):
            if not builtins:
                return arith(avail, 2)
            b = builtin(avail, where)
            a1 = arith(avail, 1)
            return st.one_of(
                arith(avail, 2),
                b,
                st.tuples(st.sampled_from(["+", "-", "*"]), b, a1).map(lambda x: ["bin", x[0], x[1], x[2]]),
                st.tuples(st.sampled_from(["+", "-", "*"]), a1, b).map(lambda x: ["bin", x[0], x[1], x[2]]),
            )

        def assign_ids(t):
            if isinstance(t, list) and t:
                if t[0] in ("smooth", "trend"):
                    sm_id[0] += 1
                    t[1] = "sm%d" % sm_id[0]
                    assign_ids(t[2])
                    return
                for x in t[1:]:
                    if isinstance(x, list):
                        assign_ids(x)

        naux = draw(st.integers(2, 6))
        kinds = draw(st.lists(st.sampled_from(["converter", "flow", "biflow", "flow"]), min_size=naux, max_size=naux))
        if not any(k in ("flow", "biflow") for k in kinds):
            kinds[-1] = "flow"
        for i, kind in enumerate(kinds):
            avail = [a["name"] for a in aux]
            tree = draw(eq_tree(avail, "aux"))
            assign_ids(tree)
            aux.append({"kind": kind, "name": {"converter": "c", "flow": "f", "biflow": "b"}[kind] + str(i), "eq": tree})
        flows = [a["name"] for a in aux if a["kind"] in ("flow", "biflow")]
        stocks = []
        for sn in stock_names:
            k = draw(st.integers(1, min(3, len(flows))))
            chosen = draw(st.lists(st.sampled_from(flows), min_size=k, max_size=k))
            signs = draw(st.lists(st.sampled_from(["+", "-"]), min_size=k, max_size=k))
            tree = ["ref", chosen[0]] if signs[0] == "+" else ["neg", ["ref", chosen[0]]]
            for fl, sg in zip(chosen[1:], signs[1:]):
                tree = ["bin", sg, tree, ["ref", fl]]
            if builtins and stock_builtins and draw(st.integers(0, 3)) == 0:
                extra = draw(builtin([a["name"] for a in aux], "stock"))
                tree = ["bin", draw(st.sampled_from(["+", "-"])), tree, extra]
            elif stock_builtins and draw(st.integers(0, 1)) == 0:
                # plain DSL functions over elements directly in the stock equation: min/max/abs/If of converters, flows and stocks
                names_ = [a["name"] for a in aux] + stock_names
                el = st.sampled_from(names_).map(lambda nm: ["ref", nm])
                two = st.tuples(st.sampled_from(["min", "max"]), el, el).map(lambda x: ["call", x[0], [x[1], x[2]]])
                extra = draw(st.one_of(two, two, arith([a["name"] for a in aux], 2).filter(lambda x: bool(E.refs(x)))))
                tree = ["bin", draw(st.sampled_from(["+", "-"])), tree, extra]
            init = draw(st.one_of(st.sampled_from([0.0, 1.0, 5.0, 10.0, 2.5, 100.0]),
                                  st.sampled_from([c["name"] for c in constants]).map(lambda nm: ["ref", nm])))
            stocks.append({"name": sn, "init": init, "eq": tree})
        case = {"start": start, "dt": dt, "n": n, "constants": constants, "points": points, "stocks": stocks, "aux": aux}
        if draw(st.integers(0, 3)) == 0:
            # the run specs are set (Model.run_specs) after all equations have been defined
            case["late_runspecs"] = draw(st.sampled_from([["0", "1"], ["1", "0.5"], ["0", "0.25"]]))
        return case

    return build()
