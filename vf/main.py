import argparse
import os
import sys


def main():
    ap = argparse.ArgumentParser()
    ap.add_argument("prop")
    ap.add_argument("--tier", default=os.environ.get("VERIF_TIER", "quick"), choices=["quick", "thorough"])
    ap.add_argument("--replay")
    ap.add_argument("--jobs", type=int, default=None)
    a = ap.parse_args()
    from vf import runner

    try:
        seed = int(os.environ.get("VERIF_SEED", "1") or "1")
    except ValueError:
        seed = 1
    prop = a.prop.upper()
    try:
        if a.replay:
            rc = runner.replay(prop, a.replay)
        else:
            rc = runner.run_check(prop, a.tier, seed, a.jobs)
    except Exception:
        import traceback

        traceback.print_exc()
        print("HARNESS ERROR (not a violation)")
        rc = 2
    sys.stdout.flush()
    sys.exit(rc)


if __name__ == "__main__":
    main()
